"""Fallback tie BY VALUES for a generated file the translator could not regenerate.

The formal model is normally tied to the code by regenerating coq/Gen/*.v from the Rust sources (tools/translate.py).
When the translator raises an error for GenScore.v or GenTables.v, that file keeps the content of the last successful
translation (translate.py leaves a failed file untouched).  This module then treats the kept file as a hand-written
model and checks the correspondence the other way the brief allows: model and implementation are run on the same
inputs, through the cfg(nucleo_verif) facade of the matcher crate (harness/hm) and the extracted model / coqc.

  GenScore.v   every score constant, the three Config presets field by field, CharClass discriminants, the bonus_for
               table, and the layout (views + alloc decision) on a grid of (haystack_len, needle_len, repr)
  GenTables.v  the exhaustive per-scalar sweep of C16 (normalize / to_lower / is_upper / classes, 8 configurations)
  GenBoxcar.v / GenOrderings.v: no fallback (memory orderings cannot be observed by running the code)

A definition of the kept file that no observation covers makes the validation FAIL (the translator error stands),
unless nothing outside coq/Gen refers to it.  A difference found is a failing input (class "translator_fallback").
Nothing here runs when the translator succeeds."""
import hashlib
import json
import os
import random
import re

import vlib

SUPPORTED = ("GenScore.v", "GenTables.v")
CLS = ["Whitespace", "NonWord", "Delimiter", "Lower", "Upper", "Letter", "Number"]
PRESETS = ["default", "match_paths", "set_match_paths"]
PFIELDS = ["white", "delim", "init", "normalize", "ignore_case", "prefer_prefix"]
# definitions of GenScore.v that are validated through an observation other than "a constant with the same name"
SCORE_COVER = {
    "cls": "classid", "cls_rank": "classid", "preset": "preset",
    "preset_default": "preset", "preset_match_paths": "preset", "preset_set_match_paths": "preset",
    "SLAB_SIZE": "layout", "alloc_refuses": "layout",
}
for _a in ("haystack", "bonus", "rows", "score", "matrix"):
    SCORE_COVER["layout_count_" + _a] = "layout"
    SCORE_COVER["view_count_" + _a] = "layout"


class Unvalidated(Exception):
    """the validation could not be carried out (as opposed to: it found a difference)"""


def _sha(path):
    h = hashlib.sha1()
    with open(path, "rb") as f:
        for blk in iter(lambda: f.read(1 << 20), b""):
            h.update(blk)
    return h.hexdigest()


def _gen_text(name):
    return open(os.path.join(vlib.COQ, "Gen", name), encoding="utf-8").read()


def _referenced_outside_gen(name):
    """is `name` used by a model / spec / theorem (any .v outside coq/Gen, comments stripped)?"""
    pat = re.compile(r"(?<![\w'.])%s(?![\w'])" % re.escape(name))
    for d, _, fs in os.walk(vlib.COQ):
        if os.path.basename(d) == "Gen":
            continue
        for f in fs:
            if f.endswith(".v"):
                txt = open(os.path.join(d, f), encoding="utf-8").read()
                if name in txt and pat.search(vlib.strip_coq_comments(txt)):
                    return os.path.relpath(os.path.join(d, f), vlib.COQ)
    return None


def _coq_eval(exprs):
    """exprs: Coq terms of type list N over Model.Matcher (which exports the Gen files); returns a list of int lists"""
    os.makedirs(vlib.SCRATCH, exist_ok=True)
    base = os.path.join(vlib.SCRATCH, "fallback_eval_%d" % os.getpid())
    src = ["From Coq Require Import NArith List Bool.", "From NV Require Import Model.Matcher.", "Import ListNotations.",
           "Local Open Scope N_scope.",
           "Definition fb_cls := [C%s]." % "; C".join(CLS),
           "Definition fb_b (b : bool) : N := if b then 1 else 0."]
    src += ["Eval vm_compute in (%s)." % e for e in exprs]
    open(base + ".v", "w").write("\n".join(src) + "\n")
    rc, out, err, _ = vlib.run(["coqc", "-Q", vlib.COQ, "NV", "-o", base + ".vo", base + ".v"], timeout=300)
    for ext in (".v", ".vo", ".glob", ".vok", ".vos"):
        try:
            os.unlink(base + ext)
        except OSError:
            pass
    if rc != 0:
        raise Unvalidated("coqc could not evaluate the kept definitions: " + " ".join((err or out).split())[-300:])
    blocks = re.findall(r"^\s*=\s(.*?)\n\s*:\s", out, re.S | re.M)
    if len(blocks) != len(exprs):
        raise Unvalidated("coqc output not understood (%d answers for %d questions)" % (len(blocks), len(exprs)))
    return [[int(x) for x in re.findall(r"\d+", b)] for b in blocks]


def _fail(gen, what, **kw):
    d = {"class": "translator_fallback", "gen_file": gen, "case": "",
         "what": "%s was kept from the last successful translation and no longer agrees with the built code: %s" % (gen, what)}
    d.update(kw)
    return d


# ---- GenScore.v ------------------------------------------------------------------------------------------------
def layout_grid(seed):
    """(haystack_len, needle_len) with haystack_len >= needle_len (asserted by MatrixLayout::new; alloc's callers
    guarantee it): every pair below 41, both sides of each bound of the alloc guard (haystack u16::MAX, needle 2048,
    cells 100 KiB) and of the layout-size test, the grid of C10, 500 random pairs"""
    pts = set()
    for hl in range(41):
        for nl in range(hl + 1):
            pts.add((hl, nl))
    for nl in [0, 1, 2, 3, 50, 2046, 2047, 2048, 2049, 2050]:
        for hl in [65533, 65534, 65535, 65536, 65537, 2046, 2047, 2048, 2049, 2050, 4096]:
            if hl >= nl:
                pts.add((hl, nl))
    for nl in range(1, 321):  # cells bound: hl * nl around 102400 (hl >= nl needs nl <= 320)
        for d in (-1, 0, 1, 2):
            hl = 102400 // nl + d
            if hl >= nl:
                pts.add((hl, nl))
    for nl in range(0, 41):  # layout size == slab size: hl * (c + nl) ~ 133120 with c = 10 (u8) / 13 (char) bytes per column
        for c in (10, 13):
            h0 = 133120 // (c + nl)
            for hl in range(max(nl, h0 - 70), h0 + 71):
                pts.add((hl, nl))
    try:
        import c10
        for l in c10.layout_lines(seed, "quick"):
            p = l.split()
            pts.add((int(p[0]), int(p[1])))
    except Exception:  # noqa  (the grid above stands on its own)
        pass
    rng = random.Random(seed * 104729 + 7)
    for _ in range(500):
        nl = rng.choice([rng.randint(0, 40), rng.randint(0, 400), rng.randint(0, 2100)])
        hl = nl + rng.choice([rng.randint(0, 50), rng.randint(0, 3000), rng.randint(0, 70000)])
        pts.add((hl, nl))
    return sorted(pts)


def validate_score(ctx, hm, drv):
    gen = "GenScore.v"
    text = vlib.strip_coq_comments(_gen_text(gen))
    defs = re.findall(r"^\s*(?:Definition|Fixpoint|Inductive|Record)\s+(\S+)", text, re.M)
    nconsts = re.findall(r"^\s*Definition\s+(\w+)\s*:\s*N\s*:=", text, re.M)
    fails = []
    # -- the implementation's values
    rc, out, err, _ = vlib.run([hm, "consts"], timeout=120)
    if rc != 0 or "const " not in out:
        raise Unvalidated("`hm consts` is not available (rc=%s %s): no constant of %s can be validated" % (rc, " ".join(err.split())[-160:], gen))
    impl_const, impl_how, impl_preset, impl_cls, impl_bonus = {}, {}, {}, {}, {}
    for line in out.splitlines():
        p = line.split()
        if p[0] == "const":
            impl_const[p[1]] = int(p[2])
        elif p[0] == "derived":
            impl_const[p[1]] = int(p[2])
            impl_how[p[1]] = p[3]
        elif p[0] == "preset":
            kv = dict(x.split("=", 1) for x in p[2:])
            impl_preset[p[1]] = {"delims": [] if kv["delims"] == "-" else [int(x) for x in kv["delims"].split(",")], **{k: int(kv[k]) for k in PFIELDS}}
        elif p[0] == "classid":
            impl_cls[p[1]] = int(p[2])
        elif p[0] == "bonus":
            impl_bonus[(p[1], int(p[2]), int(p[3]))] = int(p[4])
    # -- coverage of the kept file: every definition must be observed, or be unused outside coq/Gen
    unused, uncovered = [], []
    for d in defs:
        if d in impl_const or d in SCORE_COVER:
            continue
        ref = _referenced_outside_gen(d)
        if ref:
            uncovered.append("%s (used by %s)" % (d, ref))
        else:
            unused.append(d)
    if uncovered:
        raise Unvalidated("%s defines %s, which the cfg(nucleo_verif) hooks do not expose: not validated" % (gen, ", ".join(uncovered)))
    for k in SCORE_COVER:
        if k not in defs:
            raise Unvalidated("%s no longer defines %s: this fallback does not know the file's shape" % (gen, k))
    # -- the model's values (one coqc run)
    cnames = [n for n in nconsts if n in impl_const]
    exprs = ["[%s]" % "; ".join(cnames)]
    for p in PRESETS:
        exprs.append("p_delims preset_%s" % p)
        exprs.append("[p_white preset_{0}; p_delim preset_{0}; cls_rank (p_init preset_{0}); fb_b (p_normalize preset_{0}); fb_b (p_ignore_case preset_{0}); fb_b (p_prefer_prefix preset_{0})]".format(p))
    exprs.append("map cls_rank fb_cls")
    exprs.append("flat_map (fun p => flat_map (fun a => map (fun b => bonus_for (config_of p true true false) a b) fb_cls) fb_cls) [%s]" % "; ".join("preset_" + p for p in PRESETS))
    exprs.append("[SLAB_SIZE]")
    ans = _coq_eval(exprs)
    n = {"constants": 0, "preset_fields": 0, "class_ids": 0, "bonus_entries": 0, "layout_triples": 0}
    # (1) constants
    for name, mv in zip(cnames, ans[0]):
        n["constants"] += 1
        if impl_const[name] != mv:
            fails.append(_fail(gen, "score constant %s = %d in the built code%s, %d in %s" % (name, impl_const[name], (" (read as %s)" % impl_how[name]) if name in impl_how else "", mv, gen), constant=name, impl=impl_const[name], model=mv))
    # (2) presets
    for i, p in enumerate(PRESETS):
        if p not in impl_preset:
            raise Unvalidated("`hm consts` does not report preset %s" % p)
        md, mf = ans[1 + 2 * i], ans[2 + 2 * i]
        model = {"delims": md, **dict(zip(PFIELDS, mf))}
        for fld in ["delims"] + PFIELDS:
            n["preset_fields"] += 1
            if impl_preset[p][fld] != model[fld]:
                show = (lambda v: repr(bytes(v))[1:]) if fld == "delims" else str
                fails.append(_fail(gen, "preset %s field %s = %s in the built code, %s in %s (preset_%s)" % (
                    {"default": "Config::DEFAULT", "match_paths": "Config::DEFAULT.match_paths()", "set_match_paths": "set_match_paths() on Config::DEFAULT"}[p],
                    {"delims": "delimiter_chars", "white": "bonus_boundary_white", "delim": "bonus_boundary_delimiter", "init": "initial_char_class (as u8)"}.get(fld, fld),
                    show(impl_preset[p][fld]), show(model[fld]), gen, p), preset=p, field=fld, impl=impl_preset[p][fld], model=model[fld]))
    # (3) class discriminants and the bonus table (cls_rank drives `class > CharClass::Delimiter`)
    for name, mv in zip(CLS, ans[7]):
        n["class_ids"] += 1
        if impl_cls.get(name) != mv:
            fails.append(_fail(gen, "CharClass::%s as u8 = %s in the built code, cls_rank C%s = %d in %s" % (name, impl_cls.get(name), name, mv, gen), constant="classid " + name, impl=impl_cls.get(name), model=mv))
    k = 0
    for p in PRESETS:
        for a in range(7):
            for b in range(7):
                mv = ans[8][k]
                k += 1
                n["bonus_entries"] += 1
                iv = impl_bonus.get((p, a, b))
                if iv != mv and len(fails) < 40:
                    fails.append(_fail(gen, "bonus_for(prev=%s, class=%s) under preset %s = %s in the built code, %d in the model over %s" % (CLS[a], CLS[b], p, iv, mv, gen), constant="bonus %s %d %d " % (p, a, b), impl=iv, model=mv))
    # (4) layout views + alloc decision
    grid = layout_grid(ctx.get("seed", 1))
    lines = ["%d %d %s" % (hl, nl, r) for hl, nl in grid for r in ("A", "U")]
    lf = os.path.join(vlib.SCRATCH, "fallback_layout_%d.txt" % os.getpid())
    open(lf, "w").write("\n".join(lines) + "\n")
    rci, oi, ei, _ = vlib.run([hm, "layout", lf], timeout=300)
    rcm, om, em, _ = vlib.run([drv, "layout", lf], timeout=300)
    os.unlink(lf)
    ri, rm = oi.splitlines(), om.splitlines()
    if rcm != 0 or len(rm) != len(lines):
        raise Unvalidated("the extracted model's `layout` command failed (rc=%s, %d of %d lines): %s" % (rcm, len(rm), len(lines), " ".join(em.split())[-200:]))
    accepted = 0
    for j, line in enumerate(lines):
        i = ri[j] if j < len(ri) else "crashed: " + " ".join(ei.split())[-160:]
        n["layout_triples"] += 1
        accepted += i.startswith("ok")
        if i != rm[j] and len(fails) < 60:
            hl, nl, r = line.split()
            fails.append(_fail(gen, "MatrixSlab::alloc for (haystack_len, needle_len, repr) = (%s, %s, %s): the built code gives `%s`, the model over %s (alloc_refuses, layout_count_*, view_count_*, SLAB_SIZE) gives `%s` [refused = alloc returns None; ok slab=<bytes> then offset+bytes of haystack, bonus, row_offs, current_row, matrix_cells]" % (
                hl, nl, {"A": "u8", "U": "char"}[r], i, gen, rm[j]), layout_case=line, impl=i, model=rm[j]))
        if j >= len(ri):
            break
    # (5) the decision of the REAL MatrixSlab::alloc (layout_views repeats the guard instead of calling alloc): when alloc
    # refuses, fuzzy_match falls back to the greedy algorithm, so on a haystack where the optimal match beats the greedy
    # one, fuzzy_match == fuzzy_match_greedy exactly when alloc refused.  Probes sit on both sides of every observable bound.
    model_ok = {l: rm[j].startswith("ok") for j, l in enumerate(lines)}
    probes = set()
    for nl in [34, 35, 40, 44, 45, 50, 64, 80, 100, 128, 160, 200, 220, 225]:  # cells bound (the layout fits the slab from nl = 34 / 44 on)
        for d in (-1, 0, 1, 2):
            probes.add((102400 // nl + d, nl))
    for nl in [2, 3, 4, 5, 8, 10, 16, 20, 25, 30, 33, 40]:  # layout-size bound: last accepted haystack length per repr
        for r in ("A", "U"):
            acc = [hl for hl, n_ in grid if n_ == nl and model_ok["%d %d %s" % (hl, nl, r)] and not model_ok.get("%d %d %s" % (hl + 1, nl, r), True)]
            for hb in acc[-1:]:
                probes.update((hb + d, nl) for d in (-1, 0, 1, 2))
    rng = random.Random(ctx.get("seed", 1) * 15485863 + 3)
    for _ in range(60):
        nl = rng.randint(2, 230)
        probes.add((rng.randint(2 * nl + 2, max(2 * nl + 3, 2 * 102400 // nl)), nl))
    probes = sorted(p_ for p_ in probes if p_[0] >= 2 * p_[1] + 2 and ("%d %d A" % p_) in model_ok)
    plines = []
    for hl, nl in probes:
        # needle a^(nl-1) b; haystack: a, x, a^(nl-2), b (earliest match, one gap), filler, then " " a^(nl-1) b (contiguous, after a boundary)
        needle = [97] * (nl - 1) + [98]
        hay = [97, 120] + [97] * (nl - 2) + [98] + [120] * (hl - 2 * nl - 2) + [32] + needle
        for r in ("A", "U"):
            for algo in ("F", "G"):
                plines.append("0110 %s %s A %s %s" % (algo, r, ",".join(map(str, hay)), ",".join(map(str, needle))))
    pf = os.path.join(vlib.SCRATCH, "fallback_probe_%d.txt" % os.getpid())
    open(pf, "w").write("\n".join(plines) + "\n")
    rcp, op, ep, _ = vlib.run([hm, "match", pf, "fresh"], timeout=600)
    os.unlink(pf)
    po = op.splitlines()
    if rcp != 0 or len(po) != len(plines):
        raise Unvalidated("the alloc-decision probes did not run (rc=%s, %d of %d lines): %s" % (rcp, len(po), len(plines), " ".join(ep.split())[-200:]))
    n["alloc_probes"] = 0
    probe_acc = 0
    k = 0
    for hl, nl in probes:
        for r in ("A", "U"):
            f_out, g_out = po[k], po[k + 1]
            k += 2
            n["alloc_probes"] += 1
            impl_acc = f_out != g_out
            probe_acc += impl_acc
            if impl_acc != model_ok["%d %d %s" % (hl, nl, r)] and len(fails) < 60:
                fails.append(_fail(gen, "MatrixSlab::alloc for (haystack_len, needle_len, repr) = (%d, %d, %s): the built matcher %s (fuzzy_match returns `%s`, fuzzy_match_greedy `%s` on haystack a x a^%d b x^%d ' ' a^%d b, needle a^%d b; they coincide exactly when alloc refuses), the model over %s says alloc %s" % (
                    hl, nl, {"A": "u8", "U": "char"}[r], "takes the matrix path" if impl_acc else "falls back to the greedy algorithm", f_out[:40], g_out[:40], nl - 2, hl - 2 * nl - 2, nl - 1, nl - 1, gen,
                    "accepts" if model_ok["%d %d %s" % (hl, nl, r)] else "refuses"), layout_case="%d %d %s" % (hl, nl, r), case=plines[2 * (n["alloc_probes"] - 1)]))
    m = re.match(r"ok slab=(\d+)", next((x for x in ri if x.startswith("ok")), ""))
    if m and int(m.group(1)) != ans[9][0]:
        fails.append(_fail(gen, "size_of::<MatcherData>() = %s in the built code, SLAB_SIZE = %d in %s" % (m.group(1), ans[9][0], gen), constant="SLAB_SIZE"))
    what = ("%d score constants (%s), 3 presets field by field (%d fields), %d CharClass discriminants, %d bonus_for entries, "
            "layout views and alloc decision (facade layout_views) on %d (haystack_len, needle_len, repr) triples (%d accepted), decision of the real MatrixSlab::alloc (fuzzy_match vs fuzzy_match_greedy) on %d probes around the cell and layout-size bounds (%d accepted)" % (
                n["constants"], ", ".join(cnames), n["preset_fields"], n["class_ids"], n["bonus_entries"], n["layout_triples"], accepted, n["alloc_probes"], probe_acc))
    if unused:
        what += "; not compared, because no model/spec/theorem outside coq/Gen uses them: " + ", ".join(unused)
    return {"ok": not fails, "what": what, "counts": n, "failures": fails, "unused_definitions": unused}


# ---- GenTables.v -----------------------------------------------------------------------------------------------
def validate_tables(ctx, hm, drv):
    import c16
    gen = "GenTables.v"
    key = hashlib.sha1(("|".join([_sha(os.path.join(vlib.COQ, "Gen", gen)), _sha(os.path.join(vlib.COQ, "Gen", "GenScore.v")), _sha(hm), _sha(drv)])).encode()).hexdigest()[:20]
    cache = os.path.join(vlib.SCRATCH, "fallback_sweep_%s.json" % key)
    if os.path.exists(cache):
        r = json.load(open(cache))
        r["cached"] = True
        return r
    sh = c16.shards()
    impl = vlib.parallel([[hm, "chars-sweep", str(a), str(b)] for a, b in sh], tag="fbi")
    model = vlib.parallel([[drv, "chars-sweep", str(a), str(b)] for a, b in sh], tag="fbm")
    bad = [e[-200:] for rc, _, e in impl + model if rc != 0]
    if bad:
        raise Unvalidated("the character sweep crashed: " + " | ".join(bad))
    fails = []
    scalars = 0
    for (a, b), (_, oi, _), (_, om, _) in zip(sh, impl, model):
        scalars += sum(int(p[2]) - int(p[1]) + 1 for p in (l.split() for l in oi.splitlines()) if p and p[0] == "G")
        if oi == om:
            continue
        ds = c16.expand_diff(oi, om, 12)
        for d in ds:
            fails.append(_fail(gen, "U+%04X table %s: built code %s, model over %s %s (G = to_lower_case(c)-c, is_upper_case, normalize(c)-c; U/A<paths><ignore_case><normalize> = Char::normalize-c, char_class_and_normalize char-c and class, char_class)" % (
                d["c"], d["table"], d["impl"], gen, d["model"]), c=d["c"], table=d["table"], impl=d["impl"], model=d["model"]))
        if not ds:  # a difference inside a very long run
            li, lm = oi.splitlines(), om.splitlines()
            j = next((j for j in range(min(len(li), len(lm))) if li[j] != lm[j]), min(len(li), len(lm)))
            il, ml = (li[j] if j < len(li) else "<end>"), (lm[j] if j < len(lm) else "<end>")
            c = int((il if il != "<end>" else ml).split()[1])
            fails.append(_fail(gen, "run tables differ in [U+%04X, U+%04X): built code `%s`, model `%s` (tag first last values)" % (a, b, il, ml), c=c, impl=il, model=ml))
    what = ("exhaustive sweep of all %d Unicode scalar values: to_lower_case, is_upper_case, normalize, and for each of 8 configurations "
            "(default/path preset x ignore_case x normalize) Char::normalize, char_class_and_normalize, char_class of the char and u8 "
            "implementations; built code against the extracted model, %d differences" % (scalars, len(fails)))
    r = {"ok": not fails and scalars == 0x110000 - 0x800, "what": what, "counts": {"scalars": scalars, "evaluations": scalars * (3 + 8 * 4) + 128 * 8 * 4}, "failures": fails[:40]}
    if not fails and not r["ok"]:
        raise Unvalidated("the sweep covered %d scalar values instead of %d" % (scalars, 0x110000 - 0x800))
    json.dump(r, open(cache, "w"))
    old = sorted((f for f in os.listdir(vlib.SCRATCH) if f.startswith("fallback_sweep_")), key=lambda f: os.path.getmtime(os.path.join(vlib.SCRATCH, f)))
    for f in old[:-8]:
        os.unlink(os.path.join(vlib.SCRATCH, f))
    return r


VALIDATORS = {"GenScore.v": validate_score, "GenTables.v": validate_tables}


def apply(cid, mine, ctx, broken):
    """mine: [(gen file, translator message)] for this property (vlib.translator_errors_for).  For each file with a
    fallback, validate the kept content against the built code.  Validated: the file's ("translator", ..) entry is
    taken out of `broken` and a note is printed / recorded.  Difference: the entry stays and the differences are
    returned as failures (concrete failing inputs).  Impossible to validate: the entry stays, the reason is noted.
    Call inside vlib.Lock (builds the harness)."""
    todo = [(f, msg) for f, msg in mine if f in SUPPORTED]
    report, failures = {}, []
    if not todo:
        return failures
    try:
        hm = ctx["build"]("hm")
        drv = ctx.get("driver")
        if not drv:
            raise Unvalidated("the models do not extract")
    except (Unvalidated, vlib.BuildError) as e:
        for f, msg in todo:
            report[f] = {"ok": False, "translator_error": msg, "not_validated": str(e)[-300:]}
            print("note: translator could not regenerate %s (%s); fallback validation by values impossible: %s" % (f, msg, str(e)[-300:]))
        ctx["translator_fallback"] = report
        return failures
    for f, msg in todo:
        try:
            r = VALIDATORS[f](ctx, hm, drv)
        except Unvalidated as e:
            report[f] = {"ok": False, "translator_error": msg, "not_validated": str(e)}
            line = "translator could not regenerate %s (%s); kept the last generated version but could NOT validate it against the built code: %s" % (f, msg, e)
            ctx["notes"].append(line)
            print("note: " + line)
            continue
        report[f] = {"ok": r["ok"], "translator_error": msg, "compared": r["what"], "counts": r["counts"], "cached": bool(r.get("cached")),
                     "differences": [x["what"] for x in r["failures"][:10]]}
        if r["ok"]:
            entry = ("translator", "%s: %s" % (f, msg))
            while entry in broken:
                broken.remove(entry)
            line = "translator could not regenerate %s (%s); kept the last generated version and validated it against the built code by values: %s%s" % (
                f, msg, r["what"], " [cached result for the same Gen files and binaries]" if r.get("cached") else "")
            ctx["notes"].append(line)
            print("note: " + line)
        else:
            line = "translator could not regenerate %s (%s); the kept version DISAGREES with the built code (%d differences, first: %s)" % (f, msg, len(r["failures"]), r["failures"][0]["what"])
            ctx["notes"].append(line)
            print("note: " + line)
            failures.extend(r["failures"])
    ctx["translator_fallback"] = report
    return failures


def is_fallback_replay(path):
    try:
        return (json.load(open(path)).get("failure") or {}).get("class") == "translator_fallback"
    except Exception:  # noqa
        return False


def replay(path):
    """re-run the one observation of a translator_fallback failure: built code (harness) next to the kept model"""
    d = json.load(open(path))
    f = d["failure"]
    print(json.dumps({k: v for k, v in d.items() if k != "failure"}, indent=1, ensure_ascii=False)[:2000])
    print(f["what"])
    hm = vlib.build_harness("hm")
    drv = os.path.join(vlib.OCAML, "driver")
    if f.get("layout_case"):
        p = os.path.join(vlib.SCRATCH, "fallback_replay.txt")
        open(p, "w").write(f["layout_case"] + "\n")
        print("built code (hm layout %s):     %s" % (f["layout_case"], vlib.run([hm, "layout", p])[1].strip()))
        print("model (driver layout %s): %s" % (f["layout_case"], vlib.run([drv, "layout", p])[1].strip()))
    elif "c" in f:
        print("built code on U+%04X:\n%s" % (f["c"], vlib.run([hm, "chars-sweep", str(f["c"]), str(f["c"] + 1)])[1]))
        print("model on U+%04X:\n%s" % (f["c"], vlib.run([drv, "chars-sweep", str(f["c"]), str(f["c"] + 1)])[1]))
    else:
        out = vlib.run([hm, "consts"])[1]
        key = f.get("constant") or ("preset " + f.get("preset", ""))
        print("built code (hm consts):\n" + "\n".join(l for l in out.splitlines() if key in l))
        gen = vlib.strip_coq_comments(_gen_text(f.get("gen_file", "GenScore.v")))
        name = f.get("constant") or ("preset_" + f.get("preset", ""))
        print("kept %s:\n%s" % (f.get("gen_file"), "\n".join(l for l in gen.splitlines() if re.search(r"\b%s\b" % re.escape(name), l))))
    return 0
