#!/bin/bash
# run every claimed check (quick tier) on the current tree, refresh evidence/*.json; prints one line per check
cd /verif
for c in $(python3 -c "import json; print(' '.join(x['property_id'] for x in json.load(open('MANIFEST.json'))['checks']))"); do
  timeout 1200 ./check $c --tier quick 2>&1 | grep -E "^VIOLATION|tier=" | cut -c1-200
done
