(* `driver utf32 FILE`: the extracted model of utf32_str.rs / chars::graphemes (Model/Utf32.v) on the case
   file of property C17.  Line format and output format: see harness/hm/src/utf32cmd.rs (the Rust side
   prints the same canonical line from the real code).
     T <text> <clusters> <prior buffer> <esc> <schedule> <ranges>
     D <content> <A|U>   -              <esc> <schedule> <ranges>
   `oc` (second command line argument, default 1): arithmetic with overflow checks (dev profile) or
   wrapping (release profile). *)
open Nv
open Util

let n_of_hex s =
  let bits = ref [] in
  String.iter (fun ch ->
    let d = int_of_string ("0x" ^ String.make 1 ch) in
    bits := !bits @ [d land 8 <> 0; d land 4 <> 0; d land 2 <> 0; d land 1 <> 0]) s;
  let rec strip = function false :: r -> strip r | l -> l in
  match strip !bits with
  | [] -> N0
  | _ :: r -> Npos (List.fold_left (fun p b -> if b then XI p else XO p) XH r)
let is_hex s = s <> "" && s.[0] = 'x'
let n_of_string s = if is_hex s then n_of_hex (String.sub s 1 (String.length s - 1)) else n_of_int (int_of_string s)
(* the case generator writes every value >= 2^31 in minimal hexadecimal *)
let fits_u32 s = if is_hex s then String.length s - 1 <= 8 else true

let parse_cps s = if s = "-" then [] else List.map (fun x -> n_of_int (int_of_string x)) (String.split_on_char ',' s)
let parse_clusters s = if s = "-" then [] else List.map parse_cps (String.split_on_char '|' s)
let parse_esc s =
  if s = "-" then [] else
    List.map (fun item -> match String.split_on_char ':' item with
      | [c; e] -> (int_of_string c, parse_cps e)
      | _ -> failwith "bad esc") (String.split_on_char ';' s)
let show l = if l = [] then "-" else String.concat "," (List.map (fun i -> string_of_int (int_of_n i)) l)
let raw (u : ustr) = (match u.rp with Ascii -> "A:" | Unicode -> "U:") ^ show u.cs
let res f = function UOk a -> f a | UPanic _ -> "P"
let b2s b = if b then "1" else "0"

type rspec = { sf : char; s : string; ef : char; e : string }
let ranges_of spec len =
  if spec = "-" then []
  else if spec = "*" then begin
    let upto = List.init (len + 2) string_of_int in
    List.concat_map (fun sf -> List.concat_map (fun ef ->
      let ss = if sf = 'U' then ["0"] else upto and es = if ef = 'U' then ["0"] else upto in
      List.concat_map (fun s -> List.map (fun e -> { sf; s; ef; e }) es) ss) ['I'; 'E'; 'U']) ['I'; 'E'; 'U']
  end else
    List.map (fun item -> match String.split_on_char ':' item with
      | [f; s; e] -> { sf = f.[0]; s; ef = f.[1]; e }
      | _ -> failwith "bad range") (String.split_on_char ';' spec)
let bound_of f v = match f with 'I' -> Included (n_of_string v) | 'E' -> Excluded (n_of_string v) | _ -> Unbounded

let str_views oc esc (v : ustr) sched =
  let len = int_of_n (utf32str_len v) in
  let drive =
    let sch = List.filter_map (function 'F' -> Some true | 'B' -> Some false | _ -> None) (List.of_seq (String.to_seq sched)) in
    let (os, it) = chars_drive sch (utf32str_chars v) in
    let got = List.map (function None -> "N" | Some c -> string_of_int (int_of_n c)) os in
    (if got = [] then "-" else String.concat "," got) ^ ":" ^ show (chars_collect it) in
  let gets = List.map (fun i -> res (fun c -> string_of_int (int_of_n c)) (utf32str_get v i))
      (List.init (len + 2) n_of_int @ [n_of_hex "ffffffff"]) in
  Printf.sprintf " len=%d empty=%s ascii=%s chars=%s rev=%s drive=%s disp=%s dbg=%s get=%s"
    len (b2s (utf32str_is_empty v)) (b2s (utf32str_is_ascii v))
    (show (chars_collect (utf32str_chars v))) (show (chars_collect_back (utf32str_chars v))) drive
    (show (utf32str_display v)) (show (utf32str_debug esc v)) (String.concat "," gets)

let string_views oc esc (s : ustr) =
  Printf.sprintf " Slen=%d Sempty=%s Sdisp=%s Sdbg=%s" (int_of_n (utf32string_len s)) (b2s (utf32string_is_empty s))
    (res show (utf32string_display oc s)) (res show (utf32string_debug oc esc s))

let slices oc (v : ustr) (owned : ustr option) spec =
  let rs = ranges_of spec (int_of_n (utf32str_len v)) in
  if rs = [] then " sl=-" else
    " sl=" ^ String.concat ";" (List.map (fun r ->
      let fits = fits_u32 r.s && fits_u32 r.e in
      let sb = bound_of r.sf r.s and eb = bound_of r.ef r.e in
      let a = res raw (utf32str_slice oc v sb eb) in
      let b = if fits then res raw (utf32str_slice_u32 oc v sb eb) else "_" in
      let c = match owned with Some o -> res raw (utf32string_slice oc o sb eb) | None -> "_" in
      let d = match owned with Some o when fits -> res raw (utf32string_slice_u32 oc o sb eb) | _ -> "_" in
      String.concat "/" [a; b; c; d]) rs)

let run_file file oc =
  Match_cmd.iter_lines file (fun line ->
    if line <> "" then begin
      match String.split_on_char ' ' line with
      | "T" :: text :: clusters :: prior :: esc :: sched :: ranges :: _ ->
        let s = parse_cps text and cl = parse_clusters clusters and buf = parse_cps prior in
        let tbl = parse_esc esc in
        let escf c = match List.assoc_opt (int_of_n c) tbl with Some l -> l | None -> [c] in
        let nw = utf32str_new s cl buf in
        let o = Buffer.create 256 in
        (match nw with
         | UOk (v, buf') -> Buffer.add_string o (Printf.sprintf "new=%s buf=%s" (raw v) (show buf'))
         | UPanic _ -> Buffer.add_string o (Printf.sprintf "new=P buf=%s" (show buf)));
        Buffer.add_string o (" str=" ^ res raw (utf32string_from_str s cl));
        Buffer.add_string o (" box=" ^ res raw (utf32string_from_box s cl));
        Buffer.add_string o (" string=" ^ res raw (utf32string_from_string s cl));
        Buffer.add_string o (" cowb=" ^ res raw (utf32string_from_cow CowBorrowed s cl));
        Buffer.add_string o (" cowo=" ^ res raw (utf32string_from_cow CowOwned s cl));
        (match nw with
         | UOk (v, _) ->
           Buffer.add_string o (str_views oc escf v sched);
           let owned = match utf32string_from_str s cl with UOk x -> Some x | UPanic _ -> None in
           (match owned with Some x -> Buffer.add_string o (string_views oc escf x) | None -> Buffer.add_string o " S=P");
           Buffer.add_string o (slices oc v owned ranges)
         | UPanic _ -> Buffer.add_string o " noview");
        print_endline (Buffer.contents o)
      | "D" :: content :: variant :: _ :: esc :: sched :: ranges :: _ ->
        let c = parse_cps content in
        let tbl = parse_esc esc in
        let escf c = match List.assoc_opt (int_of_n c) tbl with Some l -> l | None -> [c] in
        let rp = if variant = "A" then Ascii else Unicode in
        let v = { rp; cs = c } in
        (* the owned Ascii variant holds a Box<str>: only constructible from valid ASCII here *)
        let owned = if variant = "A" && List.exists (fun x -> int_of_n x >= 128) c then None else Some v in
        let o = Buffer.create 256 in
        Buffer.add_string o ("raw=" ^ raw v);
        Buffer.add_string o (str_views oc escf v sched);
        (match owned with Some x -> Buffer.add_string o (string_views oc escf x) | None -> Buffer.add_string o " S=_");
        Buffer.add_string o (slices oc v owned ranges);
        print_endline (Buffer.contents o)
      | _ -> failwith ("bad case line: " ^ line)
    end)
