open Nv
open Util
let is_scalar c = c < 0xD800 || c > 0xDFFF
let rle tag lo limit f =
  let cur = ref None in
  let emit (s, l, v) =
    print_string tag; Printf.printf " %d %d" s l; List.iter (fun x -> Printf.printf " %d" x) v; print_newline () in
  for c = lo to limit - 1 do
    if is_scalar c then begin
      let v = f c in
      match !cur with
      | Some (s, l, v') when v' = v && l + 1 = c -> cur := Some (s, c, v')
      | Some r -> emit r; cur := Some (c, c, v)
      | None -> cur := Some (c, c, v)
    end
  done;
  (match !cur with Some r -> emit r | None -> ())
let sweep lo limit =
  rle "G" lo limit (fun c -> let n = n_of_int c in
    [int_of_n (to_lower n) - c; Bool.to_int (is_upper n); int_of_n (normalize n) - c]);
  List.iter (fun (name, cfg) ->
    rle ("U" ^ name) lo limit (fun c -> let n = n_of_int c in
      let (cn, k) = class_norm cfg Unicode n in
      [int_of_n (norm cfg Unicode n) - c; int_of_n cn - c; cls_id k; cls_id (class0 cfg Unicode n)]);
    rle ("A" ^ name) lo (min limit 128) (fun c -> let n = n_of_int c in
      let (cn, k) = class_norm cfg Ascii n in
      [int_of_n (norm cfg Ascii n) - c; int_of_n cn - c; cls_id k; cls_id (class0 cfg Ascii n)]))
    (configs ())
