(* conversions between OCaml ints and the extracted Coq N (hand-written, trusted) *)
open Nv
let rec pos_of_int n = if n = 1 then XH else if n land 1 = 0 then XO (pos_of_int (n lsr 1)) else XI (pos_of_int (n lsr 1))
let n_of_int n = if n = 0 then N0 else Npos (pos_of_int n)
let rec int_of_pos = function XH -> 1 | XO p -> 2 * int_of_pos p | XI p -> 2 * int_of_pos p + 1
let int_of_n = function N0 -> 0 | Npos p -> int_of_pos p
let cls_id k = int_of_n (cls_rank k)
(* the 8 configurations of the sweeps, named as in the Rust harness: paths ignore_case normalize *)
let configs () =
  List.concat_map (fun paths ->
    List.concat_map (fun ic ->
      List.map (fun nm ->
        let p = if paths then preset_match_paths else preset_default in
        (Printf.sprintf "%d%d%d" (Bool.to_int paths) (Bool.to_int ic) (Bool.to_int nm), config_of p ic nm false))
      [false; true]) [false; true]) [false; true]
