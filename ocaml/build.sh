#!/bin/sh
# extract the models and build the OCaml driver (run from anywhere)
set -e
cd "$(dirname "$0")"
coqc -Q ../coq NV ../coq/Extract/Extract.v > extract.log 2>&1 || { cat extract.log; exit 1; }
ocamlfind ocamlopt -O3 -unboxed-types 2>/dev/null >/dev/null || true
ocamlfind ocamlopt -w -a -package str nv.mli nv.ml util.ml chars_cmd.ml match_cmd.ml boxcar_cmd.ml nucleo_cmd.ml utf32_cmd.ml pat_cmd.ml pattern_cmd.ml parsort_cmd.ml driver.ml -linkpkg -o driver
