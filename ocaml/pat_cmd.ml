(* C15: runs the extracted model of Atom / Pattern / MultiPattern scoring (Model/PatternScore.v) on the case
   file written by `hm c15-prepare` and prints the same canonical line as `hm c15-run`.
   Only the RESOLVED part of a line is read (fields 6 and 7: atoms with their fields, haystacks with their
   representation); the matcher configuration given to the model is the one named by the case (field 2) -
   the real matcher's ignore_case / normalize may be anything (see harness/hm/src/patcmd.rs). *)
open Nv
open Util
open Match_cmd

let split_list s sep = if s = "-" then [] else String.split_on_char sep s

let kind_of = function 'F' -> KFuzzy | 'S' -> KSubstring | 'P' -> KPrefix | 'O' -> KPostfix | _ -> KExact

let ustr_of s =   (* <repr>:<cps> *)
  { rp = repr_of (String.sub s 0 1); cs = parse_cps (String.sub s 2 (String.length s - 2)) }

let atom_of s =   (* <neg><kind><ic><nm><repr>:<cps> *)
  { negative = s.[0] = '1'; kind = kind_of s.[1]; a_ignore_case = s.[2] = '1'; a_normalize = s.[3] = '1';
    needle = ustr_of (String.sub s 4 (String.length s - 4)) }

let show_dots l = if l = [] then "-" else String.concat "." (List.map (fun i -> string_of_int (int_of_n i)) l)
let join l = if l = [] then "_" else String.concat "," l

let show_opt = function
  | Panic _ -> "P"
  | RDone None -> "N"
  | RDone (Some s) -> string_of_int (int_of_n s)

let show_idx (r, idx) = match r with
  | Panic _ -> "P"
  | RDone None -> "N/" ^ show_dots idx
  | RDone (Some s) -> string_of_int (int_of_n s) ^ "/" ^ show_dots idx

let show_list = function
  | Panic _ -> "P"
  | RDone [] -> "-"
  | RDone l -> String.concat "," (List.map (fun (i, s) -> Printf.sprintf "%d:%d" (int_of_n i) (int_of_n s)) l)

let show_inner = function
  | NoMatch -> "N"
  | Match (s, idx) -> string_of_int (int_of_n s) ^ "/" ^ show_dots idx
  | Panicked _ -> "P"

let run_file file =
  iter_lines file (fun line ->
    if line <> "" then begin
      match String.split_on_char ' ' line with
      | id :: cfgs :: _ :: scols :: _ :: rcols :: rrows :: _ ->
        let m = cfg_of cfgs in
        let cols = List.map (fun c -> if c = "_" then [] else List.map atom_of (String.split_on_char '+' c))
            (split_list rcols ';') in
        let rows = List.map (fun r -> if r = "~" then [] else List.map ustr_of (String.split_on_char '|' r))
            (split_list rrows ';') in
        let b = Buffer.create 256 in
        Buffer.add_string b id;
        List.iteri (fun k atoms ->
          (* the rows that have a column k, with their row number *)
          let texts = List.concat (List.mapi (fun i r -> if List.length r > k then [(i, List.nth r k)] else []) rows) in
          let tbl = Hashtbl.create 16 in
          List.iter (fun (i, h) -> Hashtbl.replace tbl i h) texts;
          let conv i = Hashtbl.find tbl (int_of_n i) in
          let items = List.map (fun (i, _) -> n_of_int i) texts in
          let ps = List.map (fun (_, h) -> show_opt (fst (pattern_score atoms h m))) texts in
          let pc = List.map (fun (_, h) ->
              if atoms = [] then "-" else
                let m' = snd (pattern_score atoms h m) in
                Printf.sprintf "%d%d" (Bool.to_int m'.ignore_case) (Bool.to_int m'.normalize_on)) texts in
          let pi = List.map (fun (_, h) -> let ((r, _), idx) = pattern_indices atoms h m [] in show_idx (r, idx)) texts in
          let pm = show_list (fst (pattern_match_list atoms conv items m)) in
          Printf.bprintf b " C%d ps=%s pc=%s pi=%s pm=%s" k (join ps) (join pc) (join pi) pm;
          List.iteri (fun j a ->
            let s = List.map (fun (_, h) -> show_opt (fst (atom_score a h m))) texts in
            let i = List.map (fun (_, h) -> let ((r, _), idx) = atom_indices a h m [] in show_idx (r, idx)) texts in
            let inn = List.map (fun (_, h) -> show_inner (run (set_flags m a) (algo_of_kind a.kind) h a.needle)) texts in
            let am = show_list (fst (atom_match_list a conv items m)) in
            Printf.bprintf b " A%d s=%s i=%s in=%s m=%s" j (join s) (join i) (join inn) am) atoms) cols;
        (* the harness can only build a MultiPattern when every column came from Pattern::parse *)
        let all_parsed = List.for_all (fun c -> c <> "" && c.[0] = 'P') (split_list scols ';') in
        let ms = if all_parsed then List.map (fun r -> show_opt (fst (multi_score cols r m))) rows else [] in
        Printf.bprintf b " MS=%s" (join ms);
        print_endline (Buffer.contents b)
      | _ -> failwith ("bad case line: " ^ line)
    end)
