(* line format:  <cfg: paths ignore_case normalize prefer_prefix as 4 bits> <algo F|G|S|P|O|E> <hrepr A|U> <nrepr A|U> <h> <n>
   where <h>,<n> are comma-separated code points or "-" for the empty string *)
open Nv
open Util
let parse_cps s = if s = "-" then [] else List.map (fun x -> n_of_int (int_of_string x)) (String.split_on_char ',' s)
let repr_of = function "A" -> Ascii | _ -> Unicode
let algo_of = function "F" -> Fuzzy | "G" -> FuzzyGreedy | "S" -> Substring | "P" -> Prefix | "O" -> Postfix | _ -> Exact
let cfg_of s =
  let b i = s.[i] = '1' in
  config_of (if b 0 then preset_match_paths else preset_default) (b 1) (b 2) (b 3)
type case = { cfg : config; cfgs : string; algo : algo; hs : ustr; ns : ustr }
let parse_case line =
  match String.split_on_char ' ' line with
  | c :: a :: hr :: nr :: h :: n :: _ ->
    { cfg = cfg_of c; cfgs = c; algo = algo_of a; hs = { rp = repr_of hr; cs = parse_cps h }; ns = { rp = repr_of nr; cs = parse_cps n } }
  | _ -> failwith ("bad case line: " ^ line)
let show_idx l = if l = [] then "-" else String.concat "," (List.map (fun i -> string_of_int (int_of_n i)) l)
let iter_lines file f =
  let ic = open_in file in
  (try while true do f (input_line ic) done with End_of_file -> ());
  close_in ic
let run_file file =
  iter_lines file (fun line ->
    if line <> "" then begin
      let c = parse_case line in
      (match run c.cfg c.algo c.hs c.ns with
       | NoMatch -> print_string "N"
       | Match (s, idx) -> Printf.printf "M %d %s" (int_of_n s) (show_idx idx)
       | Panicked k -> Printf.printf "P %d" (int_of_n k));
      print_newline ()
    end)
(* facts about a case and the implementation's answer, computed with the extracted SPEC definitions *)
let facts_file file implfile brute_max =
  let ic2 = open_in implfile in
  iter_lines file (fun line ->
    if line <> "" then begin
      let c = parse_case line in
      let impl = input_line ic2 in
      let h = c.hs.cs and n = c.ns.cs and hr = c.hs.rp in
      let nhh = nh c.cfg hr h in
      let b = Bool.to_int in
      Printf.printf "subseq=%d" (b (subseq_b n nhh));
      let small = List.length h <= 400 in
      if small then begin
        let firstocc = spec_substring_pos c.cfg hr h n in
        Printf.printf " occ=%s" (match firstocc with None -> "-" | Some p -> string_of_int (int_of_n p))
      end;
      let so = function None -> "-" | Some p -> string_of_int (int_of_n p) in
      Printf.printf " nok=%d pre=%s post=%s ex=%s" (b (needle_ok c.cfg c.ns.rp n))
        (so (spec_prefix c.cfg hr h n)) (so (spec_postfix c.cfg hr h n)) (so (spec_exact c.cfg hr h n));
      (match String.split_on_char ' ' impl with
       | "M" :: _ :: idxs :: _ ->
         let idx = parse_cps idxs in
         Printf.printf " emb=%d fzf=%d" (b (embedding_b idx n nhh N0)) (int_of_n (fzf_score c.cfg hr h idx));
         (match idx with i0 :: _ -> Printf.printf " contig=%d" (b (contiguous_from idx i0)) | [] -> ())
       | _ -> ());
      if c.algo = Fuzzy then Printf.printf " dp=%d" (b (dp_taken c.cfg c.hs c.ns));
      (if c.algo = Fuzzy && n <> [] && List.length h * List.length n <= 150000 && List.length h <= 3000 then
         Printf.printf " naive=%s" (match naive_score c.cfg hr h n with None -> "-" | Some s -> string_of_int (int_of_n s)));
      if (List.length h <= brute_max || (List.length n = 1 && List.length h <= 3000)) && n <> [] then
        Printf.printf " best=%s" (match best_score c.cfg hr h n with None -> "-" | Some s -> string_of_int (int_of_n s));
      print_newline ()
    end);
  close_in ic2

(* `driver layout FILE`: lines "<hl> <nl> <A|U>" *)
let layout_file file =
  iter_lines file (fun line ->
    match String.split_on_char ' ' line with
    | hl :: nl :: r :: _ ->
      let hl = n_of_int (int_of_string hl) and nl = n_of_int (int_of_string nl) and hr = repr_of r in
      if not (slab_alloc_ok hr hl nl) then print_endline "refused"
      else begin
        let ((((o1, o2), o3), o4), o5) = layout_offsets hr hl nl in
        let ((((l1, l2), l3), l4), l5) = view_lengths hr hl nl in
        Printf.printf "ok slab=%d %d+%d %d+%d %d+%d %d+%d %d+%d\n" (int_of_n sLAB_SIZE)
          (int_of_n o1) (int_of_n l1) (int_of_n o2) (int_of_n l2) (int_of_n o3) (int_of_n l3)
          (int_of_n o4) (int_of_n l4) (int_of_n o5) (int_of_n l5)
      end
    | _ -> ())
