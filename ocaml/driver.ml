let () =
  match Array.to_list Sys.argv with
  | _ :: "chars-sweep" :: lo :: hi :: _ -> Chars_cmd.sweep (int_of_string lo) (int_of_string hi)
  | _ -> prerr_endline "usage: driver chars-sweep LO HI"; exit 2
