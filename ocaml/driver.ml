let () =
  match Array.to_list Sys.argv with
  | _ :: "chars-sweep" :: lo :: hi :: _ -> Chars_cmd.sweep (int_of_string lo) (int_of_string hi)
  | _ :: "match" :: file :: _ -> Match_cmd.run_file file
  | _ :: "utf32" :: file :: rest -> Utf32_cmd.run_file file (match rest with "0" :: _ -> false | _ -> true)
  | _ :: "c15" :: file :: _ -> Pat_cmd.run_file file
  | _ :: "pattern-gen" :: file :: _ -> Pattern_cmd.gen_file file
  | _ :: "pattern" :: file :: fx :: rest -> Pattern_cmd.run_file file (fx <> "pinned") (match rest with s :: _ -> Some s | [] -> None)
  | _ :: "pattern-oracle" :: file :: impl :: _ -> Pattern_cmd.oracle_file file impl
  | _ :: "append" :: file :: _ -> Pattern_cmd.append_file file
  | _ :: "parsort" :: file :: _ -> Parsort_cmd.run_file file
  | _ :: "parsort-pib" :: file :: _ -> Parsort_cmd.pib_file file
  | _ :: "layout" :: file :: _ -> Match_cmd.layout_file file
  | _ :: "nucleo-gen" :: seed :: count :: table :: _ -> Nucleo_cmd.gen ~tablefile:table (int_of_string seed) (int_of_string count)
  | _ :: "nucleo-gen" :: seed :: count :: _ -> Nucleo_cmd.gen (int_of_string seed) (int_of_string count)
  | _ :: "nucleo" :: file :: table :: _ -> Nucleo_cmd.run_file file table
  | _ :: "boxcar" :: file :: _ -> Boxcar_cmd.run_file file
  | _ :: "facts" :: file :: impl :: brute :: _ -> Match_cmd.facts_file file impl (int_of_string brute)
  | _ -> prerr_endline "usage: driver chars-sweep LO HI | match FILE | facts FILE IMPLOUT BRUTEMAX"; exit 2
