(* `driver parsort FILE`: same case format as `hn parsort`
     <threads> <k|-> <mode> <s:i:l,...|->
   runs the extracted model par_quicksort_model (Model/ParSort.v) and prints
     <flag 0|1> <trace summary> <s:i:l,...|->     (or `P` when the model reports a panic path)
   The thread count does not exist in the model (rayon::join is sequentialised).  k = `-`: the oracle
   never shows the flag raised; k = 0: raised at every load; k >= 1: the comparator passed to the model
   counts its calls (an impure OCaml closure around the pure extracted code; evaluation is strict and the
   flag loads of recurse are let-sequenced after the partition that precedes them, so the count at a load
   is the count of the sequential execution) and the oracle reports whether call k has happened.
   Output: <flag> <comparator calls>;<trace summary> <elems>.
   Elements carry both OCaml ints (for the test comparators W, L, X written here, identical to the ones in
   harness/hn/src/parsort_cmd.rs) and the extracted triple (for mode T = the extracted worker_less).
   `driver parsort-pib FILE`: lines `<mode> <s:i:l> <s:i:l,...|->`: the extracted partition_in_blocks on the
   slice with the given pivot; prints `<mid> <elems>`. *)
open Nv
open PS
open Util

type el = { s : int; i : int; l : int; t : wmatch }

let parse_el e =
  match String.split_on_char ':' e with
  | [s; i; l] ->
    let s = int_of_string s and i = int_of_string i and l = int_of_string l in
    { s; i; l; t = ((n_of_int s, n_of_int i), n_of_int l) }
  | _ -> failwith ("bad element " ^ e)
let parse_elems s = if s = "-" || s = "" then [] else List.map parse_el (String.split_on_char ',' s)
let show_elems v =
  if v = [] then "-" else begin
    let b = Buffer.create (16 * List.length v) in
    List.iteri (fun n e -> if n > 0 then Buffer.add_char b ','; Buffer.add_string b (Printf.sprintf "%d:%d:%d" e.s e.i e.l)) v;
    Buffer.contents b
  end
let less_mode mode a b =
  match mode with
  | 'T' -> worker_less a.t b.t
  | 'W' -> a.s > b.s
  | 'L' -> a.s >= b.s
  | _ -> (a.s * 31 + b.i * 17 + a.l + 3 * b.s) mod 5 < 2
let int_of_nat n = let rec go acc = function O -> acc | S n -> go (acc + 1) n in go 0 n
let ev_name = function
  | EvInsertion -> "ins" | EvHeapsort -> "heap" | EvBreak -> "brk" | EvReversed -> "rev" | EvPartialTry -> "ptry"
  | EvPartialSorted -> "psorted" | EvPartEqual -> "peq" | EvSeqLeft -> "seql" | EvSeqRight -> "seqr"
  | EvCancel -> "cancel" | EvJoin -> "join" | EvFuel -> "FUEL" | EvPanic -> "PANIC"
let summary tr =
  let h = Hashtbl.create 16 in
  List.iter (fun e -> let k = ev_name e in Hashtbl.replace h k (1 + try Hashtbl.find h k with Not_found -> 0)) tr;
  let l = List.sort compare (Hashtbl.fold (fun k v acc -> (k, v) :: acc) h []) in
  if l = [] then "-" else String.concat "," (List.map (fun (k, v) -> Printf.sprintf "%s=%d" k v) l)
let run_file file =
  Match_cmd.iter_lines file (fun line ->
    let line = String.trim line in
    if line <> "" then begin
      match String.split_on_char ' ' line with
      | _threads :: k :: mode :: rest ->
        let v = parse_elems (match rest with e :: _ -> e | [] -> "-") in
        (* the comparator counts its calls, as the harness comparator does; for k >= 1 the oracle answers
           "has the k-th comparator call happened": in the sequential order of the model (= the order of a
           1-thread pool) this is the value the load would see *)
        let calls = ref 0 in
        let less a b = incr calls; less_mode mode.[0] a b in
        let oracle =
          if k = "-" then (fun _ -> false)
          else let k = int_of_string k in
            if k = 0 then (fun _ -> true) else (fun _ -> !calls >= k) in
        let r = par_quicksort_model less oracle v in
        let tr = r_trace r in
        if List.mem EvPanic tr || List.mem EvFuel tr then print_endline "P"
        else Printf.printf "%d %d;%s %s\n" (Bool.to_int (r_flag r)) !calls (summary tr) (show_elems (r_list r))
      | _ -> print_endline "?"
    end)
let pib_file file =
  Match_cmd.iter_lines file (fun line ->
    let line = String.trim line in
    if line <> "" then begin
      match String.split_on_char ' ' line with
      | mode :: p :: rest ->
        let v = parse_elems (match rest with e :: _ -> e | [] -> "-") in
        let (v', mid) = partition_in_blocks (less_mode mode.[0]) v (parse_el p) in
        Printf.printf "%d %s\n" (int_of_nat mid) (show_elems v')
      | _ -> print_endline "?"
    end)
