(* C14 driver: the extracted pattern-parser model (Model/PatternParse.v) and the extracted specification
   (Spec/PatternSpec.v) on line-oriented case files.

   proto line (input of `pattern-gen`):
       P <cps>                 a raw pattern
       L <cps>                 a literal text t; the case is the pattern  escape t
       M <n> <k> <e> <cps>     a word  marker_text n k e b  (n: 0 "" 1 "!" 2 "\!"; k: 0 "" 1 "^" 2 "'" 3 "\^" 4 "\'";
                               e: 0 "" 1 "$" 2 "\$")
   case line (output of `pattern-gen`, input of everything else and of `hm pattern`):
       <pattern cps> <annotation>      annotation = P | L:<t cps> | M:<n>,<k>,<e>:<b cps>
   result line: see harness/hm/src/patcmd.rs (same format, produced here by the model).
   <cps> = comma separated code points, "-" for the empty string. *)
open Nv
open Util
open PP
open PPS

let parse_cps s = if s = "-" || s = "" then [] else List.map (fun x -> n_of_int (int_of_string x)) (String.split_on_char ',' s)
let show_cps l = if l = [] then "-" else String.concat "," (List.map (fun c -> string_of_int (int_of_n c)) l)

let iter_lines file f =
  let ic = open_in file in
  (try while true do f (input_line ic) done with End_of_file -> ());
  close_in ic

let cases = [ (CaseRespect, 'R'); (CaseIgnore, 'I'); (CaseSmart, 'S') ]
let norms = [ (NormNever, 'N'); (NormSmart, 'S') ]
let kinds = [| AFuzzy; ASubstring; APrefix; APostfix; AExact |]
let kind_char = function AFuzzy -> 'F' | ASubstring -> 'S' | APrefix -> 'P' | APostfix -> 'O' | AExact -> 'E'
let settings = List.concat_map (fun (cm, cc) -> List.map (fun (nm, nc) -> (cm, cc, nm, nc)) norms) cases

let show_atom a =
  Printf.sprintf "%c%d%c%d%d:%s" (kind_char a.a_kind) (Bool.to_int a.a_negative)
    (match a.a_repr with Ascii -> 'A' | Unicode -> 'U') (Bool.to_int a.a_ignore_case) (Bool.to_int a.a_normalize)
    (show_cps a.a_needle)
let show_atoms l = if l = [] then "-" else String.concat "|" (List.map show_atom l)

let neg_of = function 0 -> NegNone | 1 -> NegBang | _ -> NegEsc
let kindm_of = function 0 -> KmNone | 1 -> KmCaret | 2 -> KmQuote | 3 -> KmEscCaret | _ -> KmEscQuote
let end_of = function 0 -> EmNone | 1 -> EmDollar | _ -> EmEscDollar

(* ---- pattern-gen ------------------------------------------------------------------------------------ *)
let gen_file file =
  iter_lines file (fun line ->
    if line <> "" then
      match String.split_on_char ' ' line with
      | [ "P"; p ] -> Printf.printf "%s P\n" (show_cps (parse_cps p))
      | [ "L"; t ] -> let t = parse_cps t in Printf.printf "%s L:%s\n" (show_cps (escape t)) (show_cps t)
      | [ "M"; n; k; e; b ] ->
        let b' = parse_cps b in
        let (ni, ki, ei) = (int_of_string n, int_of_string k, int_of_string e) in
        Printf.printf "%s M:%d,%d,%d:%s\n" (show_cps (marker_text (neg_of ni) (kindm_of ki) (end_of ei) b')) ni ki ei (show_cps b')
      | _ -> failwith ("bad proto line: " ^ line))

(* ---- pattern ---------------------------------------------------------------------------------------- *)
type ann = AnnP | AnnL of n list | AnnM of int * int * int * n list
let parse_case line =
  match String.split_on_char ' ' line with
  | p :: rest ->
    let ann = match rest with
      | a :: _ when String.length a > 2 && a.[0] = 'L' -> AnnL (parse_cps (String.sub a 2 (String.length a - 2)))
      | a :: _ when String.length a > 2 && a.[0] = 'M' ->
        (match String.split_on_char ':' a with
         | [ _; nke; b ] ->
           (match String.split_on_char ',' nke with
            | [ n; k; e ] -> AnnM (int_of_string n, int_of_string k, int_of_string e, parse_cps b)
            | _ -> failwith "bad M annotation")
         | _ -> failwith "bad M annotation")
      | _ -> AnnP in
    (parse_cps p, ann)
  | [] -> failwith "empty case line"

(* segmentation table printed by `hm pattern-seg`: entries  <s>><graphemes s>  joined by ';' *)
let parse_seg line =
  if line = "-" || line = "" then []
  else List.map (fun e -> match String.split_on_char '>' e with
      | [ k; v ] -> (parse_cps k, parse_cps v)
      | _ -> failwith ("bad seg entry: " ^ e)) (String.split_on_char ';' line)

let run_file file fx segfile =
  let segic = match segfile with Some f -> Some (open_in f) | None -> None in
  let live = ref (pattern_parse fx crlf (List.map n_of_int [115; 101; 101; 100]) CaseSmart NormSmart) in
  iter_lines file (fun line ->
    if line <> "" then begin
      let (p, _) = parse_case line in
      let tbl = match segic with Some ic -> parse_seg (input_line ic) | None -> [] in
      (* the segmentation input of the model: the simple rule on seg_simple patterns (the table must then be
         empty -- that is the trusted UAX #29 fact behind seg_simple, reported as SEGFAIL otherwise), the
         table read off the real crate elsewhere *)
      let simple = seg_simple p in
      let seg = if simple then crlf else seg_table tbl in
      let toks = ref [] in
      if simple && tbl <> [] then toks := [ "SEGFAIL" ];
      let len = List.length p in
      List.iter (fun (cm, cc, nm, nc) ->
        let kind = kinds.(((match nm with NormNever -> 0 | NormSmart -> 1) + len) mod 5) in
        let add s v = toks := Printf.sprintf "%c%c%c=%s" s cc nc v :: !toks in
        add 'P' (show_atoms (pattern_parse fx seg p cm nm));
        live := pattern_reparse fx seg !live p cm nm;
        add 'R' (show_atoms !live);
        add 'N' (show_atoms (pattern_new fx seg p cm nm kind));
        add 'A' (show_atom (atom_new fx seg p cm nm kind false));
        add 'E' (show_atom (atom_new fx seg p cm nm kind true))) settings;
      print_endline (String.concat " " (List.rev !toks))
    end);
  (match segic with Some ic -> close_in ic | None -> ())

(* ---- pattern-oracle: the specification evaluated on the IMPLEMENTATION's output --------------------- *)
type oatom = { k : char; neg : bool; rp : char; ic : bool; nz : bool; needle : n list }
let parse_atom s =
  (* <K><neg><repr><ic><nz>:<cps> *)
  { k = s.[0]; neg = s.[1] = '1'; rp = s.[2]; ic = s.[3] = '1'; nz = s.[4] = '1';
    needle = parse_cps (String.sub s 6 (String.length s - 6)) }
let parse_atoms v = if v = "-" then [] else List.map parse_atom (String.split_on_char '|' v)
let oatom_of (a : atom) =
  { k = kind_char a.a_kind; neg = a.a_negative; rp = (match a.a_repr with Ascii -> 'A' | Unicode -> 'U');
    ic = a.a_ignore_case; nz = a.a_normalize; needle = a.a_needle }
let cm_of = function 'R' -> CaseRespect | 'I' -> CaseIgnore | _ -> CaseSmart
let nm_of = function 'N' -> NormNever | _ -> NormSmart
let special c = let c = int_of_n c in c = 92 || c = 33 || c = 94 || c = 39 || c = 36
let has_bslash l = List.exists (fun c -> int_of_n c = 92) l

let oracle_file file implfile =
  let ic2 = open_in implfile in
  iter_lines file (fun line ->
    if line <> "" then begin
      let (p, ann) = parse_case line in
      let impl = input_line ic2 in
      let checks = ref 0 and fails = ref [] in
      let n_rt = ref 0 and n_mk = ref 0 and n_sp = ref 0 in
      let fail cls key detail = fails := Printf.sprintf "%s@%s:%s" cls key detail :: !fails in
      let tbl = Hashtbl.create 32 in
      List.iter (fun tok ->
        match String.index_opt tok '=' with
        | Some i when i = 3 -> Hashtbl.replace tbl (String.sub tok 0 3) (String.sub tok 4 (String.length tok - 4))
        | _ -> ()) (String.split_on_char ' ' impl);
      let get key = match Hashtbl.find_opt tbl key with
        | None -> fail "missing" key "no-output"; None
        | Some "PANIC" -> fail "panic" key "the call panicked"; None
        | Some v -> Some (parse_atoms v) in
      let simple = seg_simple p in
      let words = spec_atoms p in
      let nonempty_words = List.filter (fun w -> w <> []) words in
      let words_plain = List.for_all (fun w -> not (List.exists special w)) words in
      List.iter (fun (cm, cc, nm, nc) ->
        let key s = Printf.sprintf "%c%c%c" s cc nc in
        let per_atom sect =
          match get (key sect) with
          | None -> None
          | Some atoms ->
            List.iter (fun a ->
              incr checks;
              if a.ic <> spec_ignore_case cm a.needle then
                fail "smart_case" (key sect) (Printf.sprintf "needle=%s,ignore_case=%b,expected=%b" (show_cps a.needle) a.ic (spec_ignore_case cm a.needle));
              incr checks;
              if a.nz <> spec_normalize nm a.needle then
                fail "smart_norm" (key sect) (Printf.sprintf "needle=%s,normalize=%b,expected=%b" (show_cps a.needle) a.nz (spec_normalize nm a.needle));
              incr checks;
              if a.ic && List.map to_lower a.needle <> a.needle then
                fail "folded" (key sect) (Printf.sprintf "needle=%s,ignore_case=true,not-a-fixed-point-of-case-folding" (show_cps a.needle));
              incr checks;
              if a.rp = 'A' && not (is_ascii a.needle) then fail "ascii_invariant" (key sect) (show_cps a.needle);
              if (sect = 'P' || sect = 'R' || sect = 'N') then begin
                incr checks;
                if a.needle = [] then fail "split" (key sect) "an-atom-with-an-empty-needle-was-kept"
              end) atoms;
            Some atoms in
        let pa = per_atom 'P' in
        let ra = per_atom 'R' in
        ignore (per_atom 'N'); ignore (per_atom 'A'); ignore (per_atom 'E');
        (* reparse = parse *)
        (match pa, ra with
         | Some a, Some b -> incr checks; if a <> b then fail "reparse" (key 'R') "atoms-after-reparse-differ-from-a-fresh-parse"
         | _ -> ());
        (* annotation-driven clauses on Pattern::parse *)
        (match pa with
         | None -> ()
         | Some atoms ->
           (match ann with
            | AnnL t ->
              if escapable t && seg_simple t then begin
                incr checks; incr n_rt;
                let want = [ oatom_of (literal_atom t cm nm) ] in
                if atoms <> want then
                  fail "roundtrip" (key 'P') (Printf.sprintf "literal=%s,expected=%s" (show_cps t) (show_atoms [ literal_atom t cm nm ]))
              end
            | AnnM (n, k, e, b) ->
              let (n', k', e') = (neg_of n, kindm_of k, end_of e) in
              if lead_ok n' k' b && tail_ok e' b && words = [ p ] then begin
                let src = tbl_source n' k' b @ (if tbl_dollar e' then [ n_of_int 36 ] else []) in
                let plain = simple && not (has_bslash b) in
                (match atoms with
                 | [ a ] ->
                   incr checks; incr n_mk;
                   if a.k <> kind_char (tbl_kind n' k' e') || a.neg <> tbl_negative n' then
                     fail "markers" (key 'P') (Printf.sprintf "kind=%c,negative=%b,table-says=%c,%b" a.k a.neg (kind_char (tbl_kind n' k' e')) (tbl_negative n'));
                   if plain then begin
                     incr checks;
                     if a.needle <> fold_if cm src then
                       fail "markers" (key 'P') (Printf.sprintf "needle=%s,expected=%s" (show_cps a.needle) (show_cps (fold_if cm src)))
                   end
                 | [] -> if plain then begin incr checks; if src <> [] then fail "markers" (key 'P') "word-with-a-non-empty-source-dropped" end
                 | _ -> incr checks; fail "markers" (key 'P') "one-word-gave-several-atoms")
              end
            | AnnP ->
              incr checks;
              if List.length atoms > List.length nonempty_words then
                fail "split" (key 'P') (Printf.sprintf "%d-atoms-from-%d-non-empty-words" (List.length atoms) (List.length nonempty_words));
              if simple && words_plain then begin
                incr checks; incr n_sp;
                let want = List.map (fold_if cm) nonempty_words in
                if List.map (fun a -> a.needle) atoms <> want || List.exists (fun a -> a.k <> 'F' || a.neg) atoms then
                  fail "split" (key 'P') (Printf.sprintf "expected-fuzzy-needles=%s" (String.concat "|" (List.map show_cps want)))
              end))) settings;
      (* Ignore = case fold of Respect, section by section (kinds, negation, representation equal) *)
      List.iter (fun (_, nc) ->
        List.iter (fun sect ->
          let ki = Printf.sprintf "%cI%c" sect nc and kr = Printf.sprintf "%cR%c" sect nc in
          match Hashtbl.find_opt tbl ki, Hashtbl.find_opt tbl kr with
          | Some vi, Some vr when vi <> "PANIC" && vr <> "PANIC" ->
            incr checks;
            let ai = parse_atoms vi and ar = parse_atoms vr in
            let same = List.length ai = List.length ar &&
                       List.for_all2 (fun a b -> a.needle = List.map to_lower b.needle && a.k = b.k && a.neg = b.neg && a.rp = b.rp) ai ar in
            if not same then fail "folded" ki "Ignore-atoms-are-not-the-case-folded-Respect-atoms"
          | _ -> ()) [ 'P'; 'N'; 'A'; 'E' ]) norms;
      Printf.printf "%d %d words=%d,rt=%d,mk=%d,sp=%d" !checks (List.length !fails) (List.length nonempty_words) !n_rt !n_mk !n_sp;
      List.iter (fun f -> print_char ' '; print_string f) (List.rev !fails);
      print_newline ()
    end);
  close_in ic2

(* ---- append: `driver append FILE` ----------------------------------------------------------------------
   lines "<old cps>\t<new cps>"; prints the decision of MultiPattern::reparse(new, append = true) after a tick
   as Spec/AppendSpec.update_allowed computes it from the atoms of the OLD text (1 = Update, 2 = Rescore; `?`
   when the old text is not seg_simple, i.e. outside the parser model's segmentation rule) and whether the
   old atoms are outside known finding K3 (last_fold_norm_ok). *)
let append_file file =
  iter_lines file (fun line ->
    if line <> "" then
      match String.split_on_char '\t' line with
      | [ o; nw ] ->
        let o = parse_cps o and nw = parse_cps nw in
        if not (seg_simple nw) then print_endline "? ?" else begin
          let oa = pattern_parse true crlf o CaseSmart NormSmart in
          Printf.printf "%d %d\n" (if update_allowed oa then 1 else 2) (if last_fold_norm_ok oa then 1 else 0)
        end
      | _ -> failwith ("bad append line: " ^ line))
