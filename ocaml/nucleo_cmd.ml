(* `driver nucleo FILE TABLE`: same history format and observation rendering as `hn nucleo` (see the header of
   harness/hn/src/nucleo_cmd.rs).  Events without a counterpart in the extracted model are handled here:
   `tick Z as` (the UI thread also parks at tick.after_spawn: the model step from tick.before_spawn is taken, its
   observation is held back until the next `ut`), `utb` (the UI thread is stepped into a blocking lock acquisition:
   `B` while the model's ETick is not enabled; the `run` step that frees the lock takes the tick step with it) and
   `utw` (where the unblocked UI thread arrived); `obs` also prints g = Snapshot::get_item(k) for k < 8, read from
   the snapshot's stream (sn_sid); `cfg` (Nucleo::update_config with the unchanged configuration) is the model's EConfig
   when the UI thread is idle: `-` when it is enabled (or a tick is in progress: not called), `BLOCKED` when the worker
   lock is held - the real call would not return (never generated) *)
open Nv
open Util
let n = n_of_int
let i = int_of_n
let ntexts = 24
let get_items = 8   (* obs reports Snapshot::get_item(k) for k < 8 *)
(* an injector thread: push (n = 1) or extend (n items g, g+step, ...; `chunk` publications per step) *)
type thr = { tid : int; sid : int; g : int; n : int; step : int; chunk : int; is_ext : bool;
             stage : int ref;   (* 0 not started, 1 reserved, 2 returned *)
             idx : int ref;     (* first reserved index *)
             pub : int ref }    (* items published so far *)
let unfinished th = !(th.stage) < 2
(* the pattern pool of the harness: (column 0 text, column 1 text); ids 0..6 = the earlier one-column pool *)
let patterns = [| ("", ""); ("a", ""); ("ab", ""); ("abc", ""); ("b", ""); ("x", ""); ("ab c", "");
                  ("", "p"); ("a", "p"); ("ab", "q"); ("a", "pq"); ("b", "p"); ("ab", "p"); ("a", "q");
                  (* only NEGATED atoms: every match has score 0, the score of the worker's placeholders *)
                  ("!a", ""); ("!b", ""); ("!ab", ""); ("", "!p") |]
let npatterns = Array.length patterns
let is_prefix a b = String.length a <= String.length b && String.sub b 0 (String.length a) = a
(* truthful append flag of `edit nw 1` after pool entry `old`: EVERY column whose text changes is extended (the old
   text is a prefix of the new one); the harness reparses exactly the changed columns, so the combined status (max
   over the columns) is Update iff this holds - the flag of the model's single EEdit.  Re-typing the same entry
   reparses column 0 with the same text: only the empty entry counts as an extension of itself (as before). *)
let extends_ old nw =
  if old = nw then old = 0 else
  let (o0, o1) = patterns.(old) and (n0, n1) = patterns.(nw) in
  (o0 = n0 || is_prefix o0 n0) && (o1 = n1 || is_prefix o1 n1)
(* MultiPattern::reparse answers Rescore whatever the append flag when the LAST atom of the column's old text is
   negative (appending to it widens the matches): the `lastneg` argument of the model's EEdit - true iff some
   reparsed column's old text ends in a negated atom (the reparsed columns: those whose text changes, column 0 if none) *)
let last_word t = match List.rev (List.filter (fun w -> w <> "") (String.split_on_char ' ' t)) with w :: _ -> w | [] -> ""
let lastneg_ old nw =
  let (o0, o1) = patterns.(old) and (n0, n1) = patterns.(nw) in
  let neg t = let w = last_word t in String.length w > 0 && w.[0] = '!' in
  if o0 = n0 && o1 = n1 then neg o0 else (o0 <> n0 && neg o0) || (o1 <> n1 && neg o1)
let run_file file tablefile =
  let table = Hashtbl.create 100 and lens = Hashtbl.create 20 in
  Match_cmd.iter_lines tablefile (fun l ->
    match String.split_on_char ' ' l with
    | [p; t; s; len] ->
      Hashtbl.replace table (int_of_string p, int_of_string t) (if s = "-" then None else Some (int_of_string s));
      Hashtbl.replace lens (int_of_string t) (int_of_string len)
    | _ -> ());
  Match_cmd.iter_lines file (fun line ->
    if String.trim line <> "" then begin
      let items : (int * int, int) Hashtbl.t = Hashtbl.create 50 in   (* (sid, idx) -> value id *)
      let text_of sid idx = match Hashtbl.find_opt items (i sid, i idx) with Some g -> g mod ntexts | None -> 0 in
      let sc p sid idx = match Hashtbl.find_opt table (i p, text_of sid idx) with Some (Some s) -> Some (n s) | _ -> None in
      let ln sid idx = match Hashtbl.find_opt lens (text_of sid idx) with Some l -> n l | None -> N0 in
      let s = ref Nucleo.init_nstate in
      let ev e = s := Nucleo.do_event sc ln !s e in
      let inj_notifies = ref 0 in
      let cur_pid = ref 0 in
      let threads : (int, thr) Hashtbl.t = Hashtbl.create 10 in
      let obs = ref [] in
      let push o = obs := o :: !obs in
      (* `tick Z as`: the UI thread also parks at tick.after_spawn, a site without a state change in the model: the
         step from tick.before_spawn is taken in the model, its observation is held back until the next `ut` *)
      let park_as = ref false and pending : string option ref = ref None in
      let idle () = !pending = None && (match !s.Nucleo.tpc with Nucleo.TIdle -> true | _ -> false) in
      (* `utb`: the UI thread sits in the blocking lock; the `run` step that frees the lock lets it through to its next
         yield point at once (the model takes the tick step together with that run step), `utw` reports where it arrived *)
      let ui_blocked = ref false and arrived : string option ref = ref None in
      let show_tpc () =
        (match !s.Nucleo.tpc with
         | Nucleo.TIdle -> (match !s.Nucleo.last_tick with Some (c, r) -> Printf.sprintf "T%d%d" (Bool.to_int c) (Bool.to_int r) | None -> "T??")
         | Nucleo.TBegun _ -> "Ybegin"
         | Nucleo.TBeforeLock _ -> "Ybefore_lock"
         | Nucleo.TBeforeTry _ -> "Ybefore_try"
         | Nucleo.TTryFailed _ -> "Ytry_failed"
         | Nucleo.TAfterRearm _ -> "Yafter_rearm"
         | Nucleo.TBeforeSpawn _ -> "Ybefore_spawn") in
      List.iter (fun evs ->
        (* like the harness: once a step blocked where the schedule did not expect it, the rest is not replayed *)
        if (match !obs with ("BLOCKED" | "ABORTED") :: _ -> true | _ -> false) then push "ABORTED" else
        match String.split_on_char ' ' (String.trim evs) with
        | ["push"; t; h; g] ->
          (match List.find_opt (fun (h', _) -> i h' = int_of_string h) !s.Nucleo.injectors with
           | Some (_, sid) -> Hashtbl.replace threads (int_of_string t) { tid = int_of_string t; sid = i sid; g = int_of_string g; n = 1; step = 1; chunk = 1; is_ext = false; stage = ref 0; idx = ref 0; pub = ref 0 }; push "-"
           | None -> push "NOINJ")
        | "ext" :: t :: h :: g :: cnt :: rest ->
          let cnt = int_of_string cnt in
          let step = (match rest with x :: _ -> int_of_string x | [] -> 1) in
          let chunk = max 1 (match rest with _ :: x :: _ -> int_of_string x | _ -> cnt) in
          (match List.find_opt (fun (h', _) -> i h' = int_of_string h) !s.Nucleo.injectors with
           | Some (_, sid) -> Hashtbl.replace threads (int_of_string t) { tid = int_of_string t; sid = i sid; g = int_of_string g; n = cnt; step; chunk; is_ext = true; stage = ref 0; idx = ref 0; pub = ref 0 }; push "-"
           | None -> push "NOINJ")
        | ["st"; t] ->
          (match Hashtbl.find_opt threads (int_of_string t) with
           | None -> push "-"
           | Some th when th.is_ext ->
             (* Vec::extend: one fetch_add reserves the whole range (n consecutive reservations with nothing in
                between); the entries are then published in index order, `chunk` of them per step; notify after the last *)
             if !(th.stage) = 0 then begin
               th.idx := i (Nucleo.count_of !s (n th.sid));
               for k = 0 to th.n - 1 do
                 Hashtbl.replace items (th.sid, !(th.idx) + k) (th.g + k * th.step);
                 ev (Nucleo.EReserve (n th.sid))
               done;
               th.stage := 1; push "Yext_res"
             end else if !(th.stage) = 1 then begin
               let m = min th.chunk (th.n - !(th.pub)) in
               for k = 0 to m - 1 do ev (Nucleo.EPublish (n th.sid, n (!(th.idx) + !(th.pub) + k))) done;
               th.pub := !(th.pub) + m;
               if !(th.pub) >= th.n then begin incr inj_notifies; th.stage := 2; push (Printf.sprintf "E%d" !(th.idx)) end
               else push "Yext_pub"
             end else push (Printf.sprintf "E%d" !(th.idx))
           | Some { sid; g; stage; idx; _ } ->
             if !stage = 0 then begin
               idx := i (Nucleo.count_of !s (n sid));
               Hashtbl.replace items (sid, !idx) g;
               ev (Nucleo.EReserve (n sid)); stage := 1; push "Yres"
             end else if !stage = 1 then begin
               ev (Nucleo.EPublish (n sid, n !idx)); incr inj_notifies; stage := 2; push (Printf.sprintf "R%d" !idx)
             end else push (Printf.sprintf "R%d" !idx))
        | ["inj"; h] -> if !pending = None then ev (Nucleo.ENewInjector (n (int_of_string h))); push "-"
        | ["clone"; h; h2] -> ev (Nucleo.ECloneInjector (n (int_of_string h), n (int_of_string h2))); push "-"
        | ["dropinj"; h] -> ev (Nucleo.EDropInjector (n (int_of_string h))); push "-"
        | ["edit"; p; a] ->
          let p = int_of_string p in
          if idle () && p >= 0 && p < npatterns then begin
            ev (Nucleo.EEdit (n p, a = "1", lastneg_ !cur_pid p)); cur_pid := p
          end;
          push "-"
        | ["restart"; c] -> if !pending = None then ev (Nucleo.ERestart (c = "1")); push "-"
        | ["cfg"] ->
          (* like the harness: not called while a tick is in progress; with the worker lock held the call blocks *)
          if not (idle ()) then push "-"
          else if Nucleo.enabled_config !s then begin ev Nucleo.EConfig; push "-" end
          else push "BLOCKED"
        | "tick" :: z :: rest when rest = [] || rest = ["as"] ->
          if idle () then begin park_as := (rest = ["as"]); ev (Nucleo.ETickBegin (z = "0")); push "Ybegin" end else push "BUSY"
        | ["ut"] | ["utb"] when !pending <> None || idle () || Nucleo.enabled_tick !s || String.trim evs = "ut" ->
          if !pending <> None then begin (match !pending with Some o -> push o | None -> ()); pending := None end
          else if idle () then push "-"
          else if not (Nucleo.enabled_tick !s) then push "BLOCKED"
          else begin
            let at_spawn = !park_as && (match !s.Nucleo.tpc with Nucleo.TBeforeSpawn _ -> true | _ -> false) in
            ev Nucleo.ETick;
            (fun o -> if at_spawn then begin pending := Some o; push "Yafter_spawn" end else push o) (show_tpc ())
          end
        (* utb: the UI thread is stepped into the blocking lock acquisition while the model's tick step is not enabled *)
        | ["utb"] -> ui_blocked := true; push "B"
        | ["utw"] ->
          (match !arrived with
           | Some o -> arrived := None; push o
           | None -> push (if !ui_blocked then "B" else if idle () then "-" else show_tpc ()))
        | ["run"] ->
          let steppable = (match !s.Nucleo.post with Nucleo.PNone -> (match !s.Nucleo.lock with Nucleo.HeldRun _ -> true | _ -> false) | _ -> true) in
          if not steppable then push "NORUN" else begin
            let was_done = (match !s.Nucleo.post with Nucleo.PDone -> true | _ -> false) in
            let sid = !s.Nucleo.wk.Nucleo.w_sid in
            let cnt = i (Nucleo.count_of !s sid) in
            let seen = List.filter (fun k -> Nucleo.published !s sid (n k)) (List.init cnt (fun k -> k)) in
            ev (Nucleo.ERun (List.map n seen, n cnt));
            if !ui_blocked && Nucleo.enabled_tick !s then begin
              ui_blocked := false; ev Nucleo.ETick; arrived := Some (show_tpc ())
            end;
            let lk = (match !s.Nucleo.lock with Nucleo.Free -> "" | _ -> "!locked") in
            push (if was_done then "Yidle" else
                    match !s.Nucleo.post with
                    | Nucleo.PUnlocked _ -> "Yunlocked" ^ lk
                    | Nucleo.PNotify -> "Ybefore_notify" ^ lk
                    | Nucleo.PDone -> "Ydone" ^ lk
                    | Nucleo.PNone ->
                      (match !s.Nucleo.lock with
                       | Nucleo.HeldRun (Nucleo.RStart, _, _) -> "Ystart"
                       | Nucleo.HeldRun (Nucleo.RSort _, _, _) -> "Ybefore_sort"
                       | Nucleo.HeldRun (Nucleo.REnd _, _, _) -> "Yend"
                       | _ -> "Yidle"))
          end
        | ["obs"] ->
          if not (idle ()) then push "BUSY" else begin
            let sn = !s.Nucleo.snap in
            let ms = List.map (fun m -> Printf.sprintf "%d:%d" (i m.Nucleo.m_score) (i m.Nucleo.m_idx)) sn.Nucleo.sn_matches in
            let ds = List.map (fun m -> match Hashtbl.find_opt items (i sn.Nucleo.sn_sid, i m.Nucleo.m_idx) with Some g -> string_of_int g | None -> "UNINIT") sn.Nucleo.sn_matches in
            (* Snapshot::get_item(k) reads the snapshot's stream: a published item -> its data, else None *)
            let gi = List.init get_items (fun k ->
                if Nucleo.published !s sn.Nucleo.sn_sid (n k) then
                  (match Hashtbl.find_opt items (i sn.Nucleo.sn_sid, k) with Some g -> string_of_int g | None -> "UNINIT")
                else "-") in
            (* k: the number of matcher columns of the items handed out - every stream has the configured number (2) *)
            push (Printf.sprintf "O p=%d c=%d m=%s d=%s inj=%d n=%d u=0 g=%s k=2 mi=ok" (i sn.Nucleo.sn_pat) (i sn.Nucleo.sn_count)
                    (if ms = [] then "-" else String.concat "," ms) (if ds = [] then "-" else String.concat "," ds)
                    (i (Nucleo.active_injectors !s)) (i !s.Nucleo.notifies + !inj_notifies) (String.concat "," gi))
          end
        | _ -> push "?") (String.split_on_char ';' line);
      print_endline (String.concat ";" (List.rev !obs))
    end)

(* ---- model-guided history generation: `driver nucleo-gen SEED COUNT` ------------------------------ *)
(* random walks over the ENABLED events of the model (so that the real threads never block where the
   scheduler cannot see them); the pattern pool / text pool are those of harness/hn/src/nucleo_cmd.rs *)
let nstyles = 17
let gen ?tablefile seed count =
  Random.init seed;
  (* with the score table of the harness (pattern pool x text pool) the generator's model state is exactly the one
     the replay computes (which worker path a run takes, hence item_count / running, depends on whether there are
     matches); without it every score is None *)
  let table = Hashtbl.create 100 and lens = Hashtbl.create 20 in
  (match tablefile with
   | Some tf -> Match_cmd.iter_lines tf (fun l ->
       match String.split_on_char ' ' l with
       | [p; t; sv; len] ->
         Hashtbl.replace table (int_of_string p, int_of_string t) (if sv = "-" then None else Some (int_of_string sv));
         Hashtbl.replace lens (int_of_string t) (int_of_string len)
       | _ -> ())
   | None -> ());
  for hk = 0 to count - 1 do
    let items : (int * int, int) Hashtbl.t = Hashtbl.create 50 in
    let text_of sid idx = match Hashtbl.find_opt items (i sid, i idx) with Some g -> g mod ntexts | None -> 0 in
    let sc p sid idx = match Hashtbl.find_opt table (i p, text_of sid idx) with Some (Some v) -> Some (n v) | _ -> None in
    let ln sid idx = match Hashtbl.find_opt lens (text_of sid idx) with Some l -> n l | None -> N0 in
    let style = hk mod nstyles in
    let s = ref Nucleo.init_nstate in
    let ev e = s := Nucleo.do_event sc ln !s e in
    let out = ref [] in
    let emit x = out := x :: !out in
    let threads : thr list ref = ref [] in
    let next_t = ref 1 and next_h = ref 1 and next_g = ref (Random.int 12) in
    let idle () = (match !s.Nucleo.tpc with Nucleo.TIdle -> true | _ -> false) in
    let held_run () = (match !s.Nucleo.post with Nucleo.PNone -> (match !s.Nucleo.lock with Nucleo.HeldRun _ -> true | _ -> false) | _ -> true) in
    let do_ut () = if (not (idle ())) && Nucleo.enabled_tick !s then (ev Nucleo.ETick; emit "ut"; true) else false in
    (* the UI thread was stepped into the blocking lock acquisition (`utb`); the run step that frees the lock lets it
       through (the model takes its tick step together with that run step), `utw` then reports where it arrived *)
    let ui_blocked = ref false in
    let do_run () =
      if held_run () then begin
        let sid = !s.Nucleo.wk.Nucleo.w_sid in
        let cnt = i (Nucleo.count_of !s sid) in
        let seen = List.filter (fun k -> Nucleo.published !s sid (n k)) (List.init cnt (fun k -> k)) in
        ev (Nucleo.ERun (List.map n seen, n cnt)); emit "run";
        if !ui_blocked && Nucleo.enabled_tick !s then begin ui_blocked := false; ev Nucleo.ETick; emit "utw" end;
        true end else false in
    let step_thread th =
      if th.is_ext then begin
        if !(th.stage) = 0 then begin
          th.idx := i (Nucleo.count_of !s (n th.sid));
          for k = 0 to th.n - 1 do
            Hashtbl.replace items (th.sid, !(th.idx) + k) (th.g + k * th.step);
            ev (Nucleo.EReserve (n th.sid))
          done;
          th.stage := 1
        end else begin
          let m = min th.chunk (th.n - !(th.pub)) in
          for k = 0 to m - 1 do ev (Nucleo.EPublish (n th.sid, n (!(th.idx) + !(th.pub) + k))) done;
          th.pub := !(th.pub) + m;
          if !(th.pub) >= th.n then th.stage := 2
        end
      end else begin
        if !(th.stage) = 0 then begin th.idx := i (Nucleo.count_of !s (n th.sid)); Hashtbl.replace items (th.sid, !(th.idx)) th.g; ev (Nucleo.EReserve (n th.sid)); th.stage := 1 end
        else begin ev (Nucleo.EPublish (n th.sid, n !(th.idx))); th.stage := 2 end
      end;
      emit (Printf.sprintf "st %d" th.tid) in
    let do_st () =
      (* style 1: keep writers parked between reservation and publication most of the time *)
      let cands = List.filter unfinished !threads in
      let cands = if style = 1 && Random.int 5 > 0 then List.filter (fun th -> !(th.stage) = 0) cands else cands in
      match cands with
      | [] -> false
      | l -> step_thread (List.nth l (Random.int (List.length l))); true in
    let finish_thread th = let f = ref 200 in while unfinished th && !f > 0 do decr f; step_thread th done in
    (* Injector::extend with cnt items g0, g0+stp, ...; chunk publications per step *)
    let do_ext cnt stp chunk =
      match !s.Nucleo.injectors with
      | [] -> None
      | l ->
        let (h, sid) = List.nth l (Random.int (List.length l)) in
        let th = { tid = !next_t; sid = i sid; g = !next_g; n = cnt; step = stp; chunk; is_ext = true; stage = ref 0; idx = ref 0; pub = ref 0 } in
        threads := th :: !threads;
        emit (Printf.sprintf "ext %d %d %d %d %d %d" !next_t (i h) !next_g cnt stp chunk);
        incr next_t; next_g := !next_g + (cnt - 1) * stp + 1 + Random.int 5; Some th in
    let small_ext () = let cnt = 2 + Random.int 6 in do_ext cnt (1 + Random.int 4) (if Random.bool () then cnt else 1 + Random.int 3) in
    let do_push () =
      match !s.Nucleo.injectors with
      | [] -> false
      | l -> if List.length (List.filter unfinished !threads) >= (if style = 1 then 7 else 4) then false
        else if Random.int 6 = 0 then (ignore (small_ext ()); true)
        else begin
          let (h, sid) = List.nth l (Random.int (List.length l)) in
          threads := { tid = !next_t; sid = i sid; g = !next_g; n = 1; step = 1; chunk = 1; is_ext = false; stage = ref 0; idx = ref 0; pub = ref 0 } :: !threads;
          emit (Printf.sprintf "push %d %d %d" !next_t (i h) !next_g);
          incr next_t; next_g := !next_g + 1 + Random.int 3; true end in
    let do_inj () = if idle () then begin ev (Nucleo.ENewInjector (n !next_h)); emit (Printf.sprintf "inj %d" !next_h); incr next_h; true end else false in
    let do_obs () = if idle () then (emit "obs"; true) else false in
    (* Nucleo::update_config(the unchanged configuration): only where the model says that the call returns (no tick in
       progress, worker lock free - the pool thread may still be between run.unlocked and the end of its closure) *)
    let do_cfg () = if Nucleo.enabled_config !s then (ev Nucleo.EConfig; emit "cfg"; true) else false in
    let cur_pat = ref 0 in
    let all_pats = List.init npatterns (fun q -> q) in
    let edit_to p app = ev (Nucleo.EEdit (n p, app, lastneg_ !cur_pat p)); emit (Printf.sprintf "edit %d %d" p (Bool.to_int app)); cur_pat := p in
    let exts_of p = List.filter (fun q -> q <> p && extends_ p q) all_pats in
    let pick l = List.nth l (Random.int (List.length l)) in
    let do_edit () =
      if idle () then begin
        let p = Random.int npatterns in
        let app = extends_ !cur_pat p && Random.int 4 > 0 in
        edit_to p app;
        (* typing burst: a (usually non-append) edit directly followed by an append edit, no tick in between *)
        if Random.int 2 = 0 then begin
          let exts = exts_of p in
          if exts <> [] then edit_to (pick exts) true
        end;
        true end else false in
    let do_restart () = if idle () then begin
        let c = Random.bool () in ev (Nucleo.ERestart c); emit (Printf.sprintf "restart %d" (Bool.to_int c));
        (* style 2: back-to-back restarts with an injector created in between (it belongs to a stream that never saw
           a tick or an item and must stay disconnected from the newest stream) *)
        if style = 2 && Random.int 2 = 0 then begin
          ignore (do_inj ());
          let c2 = Random.bool () in ev (Nucleo.ERestart c2); emit (Printf.sprintf "restart %d" (Bool.to_int c2))
        end;
        true end else false in
    let do_tick () = if idle () then begin let z = ((style = 3 || style = 5) && Random.int 4 > 0) || Random.int 3 = 0 in ev (Nucleo.ETickBegin z); emit (Printf.sprintf "tick %d" (if z then 0 else 1)); true end else false in
    let tick_begin z = ev (Nucleo.ETickBegin z); emit (if z then "tick 0" else "tick 1") in
    (* finish the tick in progress and the run (to the point where the pool thread is idle again) *)
    let settle () = let f = ref 200 in while !f > 0 && (not (idle ()) || held_run ()) do decr f; if not (do_ut ()) then ignore (do_run ()) done in
    (* let the tick in progress return (a timed-out tick leaves the run parked) *)
    let finish_tick () = let f = ref 50 in while !f > 0 && not (idle ()) do decr f; if not (do_ut ()) then ignore (do_run ()) done in
    let run_parked_before_sort () = (match !s.Nucleo.post, !s.Nucleo.lock with Nucleo.PNone, Nucleo.HeldRun ((Nucleo.RStart | Nucleo.RSort _), _, _) -> true | _ -> false) in
    let run_at_start () = (match !s.Nucleo.post, !s.Nucleo.lock with Nucleo.PNone, Nucleo.HeldRun (Nucleo.RStart, _, _) -> true | _ -> false) in
    ignore (do_inj ());
    if style = 8 then begin
      (* style 8: bulk - the history starts with one or two Injector::extend calls of 25..60 items whose pool ids
         cycle through a few texts (step s: 24 / gcd(24, s) distinct texts), so that many matches tie on (score,
         total length) and are interleaved with matches of other scores / lengths; more than 20 matches take the
         sort off its insertion-sort path *)
      let steps_ = [| 1; 1; 2; 3; 4; 5; 6; 7; 8; 9; 12 |] in
      let k = 1 + Random.int 2 in
      let ths = List.filter_map (fun _ ->
          let cnt = 25 + Random.int 36 in
          let chunk = (match Random.int 5 with 0 | 1 -> cnt | 2 -> (cnt + 1) / 2 | 3 -> 10 | _ -> 5) in
          do_ext cnt steps_.(Random.int (Array.length steps_)) chunk) (List.init k (fun _ -> ())) in
      if Random.int 3 > 0 then List.iter finish_thread ths
      else List.iter (fun th -> for _ = 1 to 1 + Random.int 4 do if unfinished th then step_thread th done) ths;
      (* a pattern with many matches in the pool *)
      if Random.int 5 > 0 then begin
        let rich = [| 1; 1; 2; 4; 7; 8; 13; 9; 14; 15; 17 |] in
        let p = rich.(Random.int (Array.length rich)) in
        edit_to p (Random.bool ())
      end
    end
    else if style <> 4 then (ignore (do_push ()); ignore (do_push ()));
    let steps = 25 + Random.int 50 in
    for _ = 1 to steps do
      (* 100..103: update_config (every style; the shares of the other events among themselves are unchanged) *)
      let r = Random.int 104 in
      let ok =
        if r < 22 then do_st ()
        else if r < 34 then do_push ()
        else if r < 52 then do_ut ()
        else if r < 70 then do_run ()
        else if r < 78 then do_tick ()
        else if r < 84 then do_edit ()
        else if r < 88 then (if style = 2 || Random.int 4 = 0 then do_restart () else false)
        else if r < 91 then do_inj ()
        else if r < 93 then (match !s.Nucleo.injectors with (h, _) :: _ when Random.bool () -> ev (Nucleo.ECloneInjector (h, n !next_h)); emit (Printf.sprintf "clone %d %d" (i h) !next_h); incr next_h; true | _ -> false)
        else if r < 95 then (match !s.Nucleo.injectors with [] -> false | l -> let (h, _) = List.nth l (Random.int (List.length l)) in
                              if List.exists unfinished !threads then false else begin ev (Nucleo.EDropInjector h); emit (Printf.sprintf "dropinj %d" (i h)); true end)
        else if r < 100 then do_obs ()
        else do_cfg () in
      ignore ok;
      (* style 5: cancel-heavy - as soon as a tick has answered `running`, edit the pattern and tick again
         while the run is still parked somewhere *)
      if style = 5 && idle () && (match !s.Nucleo.last_tick with Some (_, true) -> true | _ -> false) && held_run () && Random.int 2 = 0 then begin
        ignore (do_edit ()); ignore (do_tick ()); ignore (do_ut ())
      end
    done;
    (* style 6: retype - the history ends with: let the worker settle on a non-empty pattern P0 (tick with a long
       timeout, run to completion), then type WITHOUT a tick in between a new text P1 that does not extend P0
       (append = false) and an extension P2 of P1 (append = true); the wind-down below then ticks to quiescence *)
    if style = 6 then begin
      settle ();
      if idle () then begin
        (* publish most of what is in flight so that the worker has something to (not) match *)
        for _ = 1 to 6 do if Random.int 4 > 0 then ignore (do_st ()) done;
        if !cur_pat = 0 || Random.int 3 = 0 then begin
          let p0 = 1 + Random.int (npatterns - 1) in
          edit_to p0 (extends_ !cur_pat p0 && Random.bool ())
        end;
        tick_begin false;
        settle ();
        if Random.bool () then begin tick_begin false; settle () end;
        ignore (do_obs ());
        if idle () then begin
          (* an append after a NEGATED last atom is a Rescore anyway: mostly start from a text whose last atom is positive *)
          let positive q = let (q0, q1) = patterns.(q) in not (String.contains q0 '!' || String.contains q1 '!') in
          let firsts = List.filter (fun q -> q <> !cur_pat && exts_of q <> []) all_pats in
          let firsts = if Random.int 8 > 0 then List.filter positive firsts else firsts in
          let p1 = pick firsts in
          edit_to p1 false;
          edit_to (pick (exts_of p1)) true;
          if Random.int 3 = 0 then ignore (do_push ());
          for _ = 1 to 3 do if Random.bool () then ignore (do_st ()) done
        end
      end
    end;
    (* style 7: stale run at restart - the history ends with: a zero-timeout tick leaves a run behind, the run
       finishes and is NOT collected, restart, a zero-timeout tick that spawns the first run over the new stream and
       times out on it, observations while that run is still parked; then the wind-down *)
    if style = 7 then begin
      settle ();
      if idle () && not (held_run ()) then begin
        if !s.Nucleo.injectors = [] then ignore (do_inj ());
        (* make sure there is work for the run: a new item, published *)
        ignore (do_push ());
        for _ = 1 to 8 do if Random.int 5 > 0 then ignore (do_st ()) done;
        if Random.int 3 = 0 then ignore (do_edit ());
        tick_begin true;
        finish_tick ();
        let f2 = ref 50 in
        while !f2 > 0 && held_run () do decr f2; ignore (do_run ()) done;
        if Random.int 4 > 0 then ignore (do_obs ());
        if Random.int 3 = 0 then (ignore (do_push ()); ignore (do_st ()); ignore (do_st ()));
        ignore (do_restart ());
        if Random.int 3 = 0 then ignore (do_obs ());
        if Random.int 3 = 0 then (ignore (do_inj ()); ignore (do_push ()); ignore (do_st ()); ignore (do_st ()));
        tick_begin true;
        finish_tick ();
        ignore (do_obs ());
        if Random.bool () then begin
          (* a second timed-out tick while the run over the new stream is still parked / finished but not collected *)
          for _ = 1 to Random.int 4 do ignore (do_run ()) done;
          ignore (do_obs ());
          if Random.bool () then ignore (do_restart ());
          ignore (do_obs ())
        end
      end
    end;
    (* new items for the epilogues of styles 9 / 10: a push or a small extend, mostly published *)
    let feed () =
      if !s.Nucleo.injectors = [] || not (List.exists (fun (_, sid) -> i sid = i !s.Nucleo.cur) !s.Nucleo.injectors) then ignore (do_inj ());
      List.iter (fun th -> if Random.int 6 > 0 then finish_thread th) (List.filter unfinished !threads);
      let cur_inj = List.filter (fun (_, sid) -> i sid = i !s.Nucleo.cur) !s.Nucleo.injectors in
      (match cur_inj with
       | [] -> ()
       | l ->
         let (h, sid) = pick l in
         let cnt = 3 + Random.int 8 in
         let th = { tid = !next_t; sid = i sid; g = !next_g; n = cnt; step = 1 + Random.int 5; chunk = cnt; is_ext = true; stage = ref 0; idx = ref 0; pub = ref 0 } in
         threads := th :: !threads;
         emit (Printf.sprintf "ext %d %d %d %d %d %d" th.tid (i h) th.g cnt th.step th.chunk);
         incr next_t; next_g := !next_g + (cnt - 1) * th.step + 1 + Random.int 5;
         finish_thread th) in
    (* style 9: cancelled run, then the empty pattern - the history ends with: a zero-timeout tick leaves a run over a
       non-empty pattern parked before its sort, the pattern is edited to the EMPTY one, the next tick cancels the run in
       flight and spawns the (trivial) empty-pattern run; then the wind-down to quiescence *)
    if style = 9 then begin
      settle ();
      if idle () && not (held_run ()) then begin
        if Random.int 4 > 0 then feed ();
        let p0 = 1 + Random.int (npatterns - 1) in
        edit_to p0 (extends_ !cur_pat p0 && Random.bool ());
        tick_begin true;
        finish_tick ();
        if idle () && run_parked_before_sort () then begin
          if run_at_start () && Random.bool () then ignore (do_run ());
          if Random.int 4 = 0 then ignore (do_obs ());
          edit_to 0 false;
          tick_begin (Random.int 3 = 0);
          ignore (do_ut ())
        end
      end
    end;
    (* style 10: scan cancelled by an append edit - the history ends with: a run that takes the scoring scan over new
       items (status Unchanged after the worker settled on P0, or the first run over a cleared worker) is left parked
       at run.start by a zero-timeout tick; an extension of P0 is typed with append = true; the next tick sets the
       cancel flag before the run scans (the scan leaves unscored entries), and its Update run has to score them *)
    if style = 10 then begin
      settle ();
      if idle () && not (held_run ()) then begin
        let bases = List.filter (fun q -> q <> 0 && exts_of q <> []) all_pats in
        let fresh = Random.int 3 = 0 in
        if fresh then begin
          (* the first run after a restart: cleared worker, no matches - the scoring scan whatever the status *)
          ignore (do_restart ());
          if not (List.mem !cur_pat bases) || Random.bool () then begin let p0 = pick bases in edit_to p0 (extends_ !cur_pat p0 && Random.bool ()) end;
          feed ()
        end else begin
          if not (List.mem !cur_pat bases) || Random.int 3 = 0 then begin let p0 = pick bases in edit_to p0 (extends_ !cur_pat p0 && Random.bool ()) end;
          if Random.bool () then feed ();
          tick_begin false; settle ();
          if Random.bool () then begin tick_begin false; settle () end;
          if Random.int 3 = 0 then ignore (do_obs ());
          feed ()
        end;
        if idle () && not (held_run ()) then begin
          tick_begin true;
          finish_tick ();
          if idle () && run_at_start () then begin
            edit_to (pick (exts_of !cur_pat)) true;
            tick_begin (Random.int 3 = 0);
            ignore (do_ut ())
          end
        end
      end
    end;
    (* style 11: two columns typed between two ticks - the history ends with: the worker settles on a pool entry, then
       WITHOUT a tick in between column 1 is replaced (not an append) and column 0 is extended (append), as one
       edit or as two; the combined status must be Rescore *)
    if style = 11 then begin
      settle ();
      if idle () && not (held_run ()) then begin
        if Random.int 3 > 0 then feed ();
        let two = [| 7; 8; 10; 12; 13 |] in
        if not (Array.mem !cur_pat two) || Random.bool () then begin let p0 = two.(Random.int (Array.length two)) in edit_to p0 (extends_ !cur_pat p0 && Random.bool ()) end;
        tick_begin false; settle ();
        if Random.bool () then begin tick_begin false; settle () end;
        if Random.int 3 = 0 then ignore (do_obs ());
        if idle () && not (held_run ()) then begin
          let (c0, c1) = patterns.(!cur_pat) in
          (* entries that extend column 0 and replace column 1 *)
          let mixed = List.filter (fun q -> let (q0, q1) = patterns.(q) in q0 <> c0 && is_prefix c0 q0 && q1 <> c1 && not (is_prefix c1 q1)) all_pats in
          (* the same in two edits: first column 1 alone, then column 0 alone *)
          let via = List.filter (fun q -> let (q0, q1) = patterns.(q) in q0 = c0 && q1 <> c1 && not (is_prefix c1 q1)) all_pats in
          let two_step = List.concat_map (fun q -> let (q0, q1) = patterns.(q) in
                                           List.filter_map (fun r -> let (r0, r1) = patterns.(r) in if r1 = q1 && r0 <> q0 && is_prefix q0 r0 then Some (q, r) else None) all_pats) via in
          if two_step <> [] && (mixed = [] || Random.bool ()) then begin
            let (q, r) = pick two_step in edit_to q false; edit_to r true
          end else if mixed <> [] then edit_to (pick mixed) false
        end
      end
    end;
    (* style 12: the run completes between spawn and the rest of tick - the history ends with: the worker settled
       (state Fresh), new published items (usually without an edit, so that the tick takes the non-cancelling path that
       arms the notification flag), a tick whose UI thread ALSO parks at tick.after_spawn (`tick Z as`), the spawned run
       stepped all the way to the end of its closure while the UI thread sits there, then the rest of the tick *)
    if style = 12 then begin
      settle ();
      if idle () && not (held_run ()) then begin
        tick_begin false; settle ();
        if Random.int 4 = 0 then ignore (do_edit ());
        feed ();
        if idle () && not (held_run ()) then begin
          let z = Random.bool () in
          ev (Nucleo.ETickBegin z); emit (if z then "tick 0 as" else "tick 1 as");
          let f = ref 40 in
          while !f > 0 && not (idle ()) do
            decr f;
            let at_spawn = (match !s.Nucleo.tpc with Nucleo.TBeforeSpawn _ -> true | _ -> false) in
            if do_ut () then begin
              if at_spawn then begin
                (* the UI thread is parked at tick.after_spawn (the model has already taken the step) *)
                let f2 = ref (if Random.int 5 > 0 then 50 else Random.int 5) in
                while !f2 > 0 && held_run () do decr f2; ignore (do_run ()) done;
                emit "ut"
              end
            end else ignore (do_run ())
          done;
          ignore (do_obs ())
        end
      end
    end;
    (* style 13: tick blocks on the worker lock - the history ends with: a zero-timeout tick leaves a run parked holding
       the worker lock; a restart (new injector, new items; sometimes a late push through an old injector) or an edit;
       a tick (mostly timeout 0) that takes the cancelling branch and is stepped INTO the blocking lock_arc() while the
       cancelled run still holds the lock (`utb`: the UI thread must NOT come out); the run is stepped until it releases
       the lock, at which point the UI thread must arrive at tick.before_spawn (`utw`); the tick completes; observations *)
    if style = 13 then begin
      settle ();
      if idle () && not (held_run ()) then begin
        if Random.int 3 > 0 then begin tick_begin false; settle () end;
        if Random.int 3 = 0 then begin let p0 = Random.int npatterns in edit_to p0 (extends_ !cur_pat p0 && Random.bool ()) end;
        feed ();
        if idle () && not (held_run ()) then begin
          tick_begin true;
          finish_tick ();
          if idle () && (match !s.Nucleo.post, !s.Nucleo.lock with Nucleo.PNone, Nucleo.HeldRun _ -> true | _ -> false) then begin
            if run_at_start () && Random.int 3 = 0 then ignore (do_run ());
            if Random.int 4 = 0 then ignore (do_obs ());
            let old_inj = !s.Nucleo.injectors in
            if Random.int 4 > 0 then begin
              ignore (do_restart ());
              if Random.int 3 = 0 then ignore (do_obs ());
              (* an injector and items for the new stream *)
              feed ();
              (* a late item through an injector of the old stream *)
              (match old_inj with
               | (h, sid) :: _ when Random.bool () && List.exists (fun (h', _) -> i h' = i h) !s.Nucleo.injectors ->
                 let th = { tid = !next_t; sid = i sid; g = !next_g; n = 1; step = 1; chunk = 1; is_ext = false; stage = ref 0; idx = ref 0; pub = ref 0 } in
                 threads := th :: !threads;
                 emit (Printf.sprintf "push %d %d %d" th.tid (i h) th.g);
                 incr next_t; next_g := !next_g + 1 + Random.int 3;
                 if Random.int 4 > 0 then finish_thread th
               | _ -> ())
            end else begin
              let p1 = Random.int npatterns in
              edit_to p1 (extends_ !cur_pat p1 && Random.bool ())
            end;
            if idle () then begin
              tick_begin (Random.int 4 > 0);
              ignore (do_ut ());
              (match !s.Nucleo.tpc with
               | Nucleo.TBeforeLock _ when not (Nucleo.enabled_tick !s) ->
                 emit "utb"; ui_blocked := true;
                 let f = ref 20 in
                 while !f > 0 && !ui_blocked do decr f; ignore (do_run ()) done;
                 (* the rest of the run's closure, interleaved with the rest of the tick *)
                 for _ = 1 to Random.int 4 do ignore (do_run ()) done
               | _ -> ());
              finish_tick ();
              ignore (do_obs ())
            end
          end
        end
      end
    end;
    (* style 14: rescore run cancelled before it starts, then an append edit - the history ends with: the worker settles
       on P0 (few matches), a NON-append edit to an unrelated P1 and a zero-timeout tick leave a Rescore run parked at
       run.start; an extension P2 of P1 is typed with append = true; the next tick sets the cancel flag before the
       Rescore run has done anything; the cancelled run must still have reset the matches (all items), because the
       Update run that follows only rescans the worker's current matches *)
    if style = 14 then begin
      settle ();
      if idle () && not (held_run ()) then begin
        if Random.int 3 > 0 then feed ();
        let narrow = [| 5; 5; 4; 11; 3; 6; 15; 16 |] in
        let p0 = if Random.int 4 > 0 then narrow.(Random.int (Array.length narrow)) else 1 + Random.int (npatterns - 1) in
        if p0 <> !cur_pat then edit_to p0 (extends_ !cur_pat p0 && Random.bool ());
        tick_begin false; settle ();
        if Random.bool () then begin tick_begin false; settle () end;
        if Random.int 3 = 0 then ignore (do_obs ());
        if Random.int 3 = 0 then feed ();
        if idle () && not (held_run ()) then begin
          let firsts = List.filter (fun q -> q <> !cur_pat && q <> 0 && exts_of q <> []) all_pats in
          let p1 = pick firsts in
          edit_to p1 false;
          tick_begin true;
          finish_tick ();
          if idle () && run_at_start () then begin
            edit_to (pick (exts_of p1)) true;
            tick_begin (Random.int 3 = 0);
            ignore (do_ut ());
            (match !s.Nucleo.tpc with
             | Nucleo.TBeforeLock _ when not (Nucleo.enabled_tick !s) && Random.bool () ->
               emit "utb"; ui_blocked := true;
               let f = ref 20 in
               while !f > 0 && !ui_blocked do decr f; ignore (do_run ()) done
             | _ -> ())
          end
        end
      end
    end;
    (* style 15: run cancelled between its scan and its sort, then an append edit - the history ends with: a run that has
       scored items which do NOT match the current pattern P (the match list holds placeholders, `unmatched` > 0) is parked
       at run.before_sort by a zero-timeout tick; an extension P' of P is typed with append = true; the next tick sets the
       cancel flag, the sort reports `cancelled`: the list is neither sorted nor truncated (placeholders stay, real entries
       behind them), and the Update run that follows re-scores that list IN PLACE - it has to count the old placeholders
       again and must find every real entry still there.  The items are chosen with the score table: some that do not
       match P first, then some that match P'.  Variants: the scoring scan over new items (status Unchanged after the
       worker settled on P, or the first run over a restarted stream) / the in-place re-scoring of an append edit P0 -> P *)
    if style = 15 then begin
      settle ();
      List.iter finish_thread (List.filter unfinished !threads);
      if idle () && not (held_run ()) then begin
        let matches_ p t = p = 0 || (match Hashtbl.find_opt table (p, t) with Some (Some _) -> true | _ -> false) in
        let texts f = List.filter f (List.init ntexts (fun t -> t)) in
        let positive q = let (q0, q1) = patterns.(q) in not (String.contains q0 '!' || String.contains q1 '!') in
        let shuffle l = List.map snd (List.sort compare (List.map (fun x -> (Random.bits (), x)) l)) in
        (* one item with pool text t through a handle of the current stream; published unless `park` *)
        let push_text ?(park = false) t =
          if not (List.exists (fun (_, sid) -> i sid = i !s.Nucleo.cur) !s.Nucleo.injectors) then ignore (do_inj ());
          match List.filter (fun (_, sid) -> i sid = i !s.Nucleo.cur) !s.Nucleo.injectors with
          | [] -> ()
          | l ->
            let (h, sid) = pick l in
            let g = t + ntexts * Random.int 3 in
            let th = { tid = !next_t; sid = i sid; g; n = 1; step = 1; chunk = 1; is_ext = false; stage = ref 0; idx = ref 0; pub = ref 0 } in
            threads := th :: !threads;
            emit (Printf.sprintf "push %d %d %d" th.tid (i h) g);
            incr next_t;
            if park then step_thread th else finish_thread th in
        let some k l = List.init k (fun _ -> pick l) in
        let at_sort () = (match !s.Nucleo.post, !s.Nucleo.lock with Nucleo.PNone, Nucleo.HeldRun (Nucleo.RSort _, _, _) -> true | _ -> false) in
        (* the append edit and the tick that cancels the parked run; sometimes the tick is stepped into the blocking lock *)
        let cancel_by_append p' =
          if Random.int 4 = 0 then ignore (do_obs ());
          edit_to p' true;
          tick_begin (Random.int 3 = 0);
          ignore (do_ut ());
          (match !s.Nucleo.tpc with
           | Nucleo.TBeforeLock _ when not (Nucleo.enabled_tick !s) && Random.bool () ->
             emit "utb"; ui_blocked := true;
             let f = ref 20 in
             while !f > 0 && !ui_blocked do decr f; ignore (do_run ()) done
           | _ -> ()) in
        let bases = List.filter (fun q -> q <> 0 && positive q && exts_of q <> []) all_pats in
        if Random.int 3 > 0 then begin
          (* the scoring scan: P = p0, P' = p1 *)
          let pairs = List.concat_map (fun p0 -> List.filter_map (fun p1 ->
              if texts (fun t -> not (matches_ p0 t)) <> [] && texts (matches_ p1) <> [] then Some (p0, p1) else None) (exts_of p0)) bases in
          if pairs <> [] then begin
            let (p0, p1) = pick pairs in
            let nm0 = texts (fun t -> not (matches_ p0 t)) and m1 = texts (matches_ p1) in
            let fresh = Random.int 4 = 0 in
            if fresh then begin
              (* the first run over a restarted stream: cleared worker, the scoring scan whatever the status *)
              ignore (do_restart ());
              if p0 <> !cur_pat then edit_to p0 (extends_ !cur_pat p0 && Random.bool ())
            end else begin
              if p0 <> !cur_pat then edit_to p0 (extends_ !cur_pat p0 && Random.bool ());
              if Random.bool () then feed ();
              tick_begin false; settle ();
              if Random.bool () then begin tick_begin false; settle () end;
              if Random.int 3 = 0 then ignore (do_obs ())
            end;
            if idle () && not (held_run ()) then begin
              if Random.int 4 = 0 then List.iter push_text (some 1 m1);
              List.iter push_text (some (1 + Random.int 3) nm0);
              if Random.int 5 = 0 then push_text ~park:true (pick m1);
              List.iter push_text (some (1 + Random.int 3) m1);
              if Random.int 4 = 0 then List.iter push_text (some 1 nm0);
              tick_begin true;
              finish_tick ();
              if idle () && run_at_start () then begin
                ignore (do_run ());
                if at_sort () then cancel_by_append p1
              end
            end
          end
        end else begin
          (* the in-place re-scoring: the worker settles on p0, append edit p0 -> P = p1 (Update run parked before its
             sort with placeholders for the items that match p0 but not p1), P' = p2 *)
          let chains = List.concat_map (fun p1 -> List.concat_map (fun p0 ->
              if p0 <> p1 && positive p0 && extends_ p0 p1 && texts (fun t -> matches_ p0 t && not (matches_ p1 t)) <> [] then
                List.filter_map (fun p2 -> if texts (matches_ p2) <> [] then Some (p0, p1, p2) else None) (exts_of p1)
              else []) all_pats) bases in
          if chains <> [] then begin
            let (p0, p1, p2) = pick chains in
            let mid = texts (fun t -> matches_ p0 t && not (matches_ p1 t)) and m2 = texts (matches_ p2) in
            if p0 <> !cur_pat then edit_to p0 (extends_ !cur_pat p0 && Random.bool ());
            if Random.int 3 = 0 then feed ();
            let a = some (1 + Random.int 3) mid and b = some (1 + Random.int 3) m2 in
            List.iter push_text (if Random.int 3 = 0 then shuffle (a @ b) else a @ b);
            tick_begin false; settle ();
            if Random.bool () then begin tick_begin false; settle () end;
            if Random.int 3 = 0 then ignore (do_obs ());
            if idle () && not (held_run ()) then begin
              edit_to p1 true;
              tick_begin true;
              finish_tick ();
              if idle () && run_at_start () then begin
                ignore (do_run ());
                if at_sort () then cancel_by_append p2
              end
            end
          end
        end
      end
    end;
    (* style 16: update_config between runs and ticks - the history ends with: the worker settled (state Fresh), then a
       few rounds of: new published items (sometimes an edit), update_config, a tick (the non-cancelling branch unless
       there was an edit) whose run must score the items, notify and be picked up as usual; update_config again while
       the pool thread is between the release of the lock and the end of its closure (run.unlocked / run.before_notify
       / run.done) and after it; observations.  The call must change nothing: cancel flag, notification flag, snapshot *)
    if style = 16 then begin
      settle ();
      if idle () && not (held_run ()) then begin
        tick_begin false; settle ();
        for _ = 1 to 1 + Random.int 3 do
          if idle () && not (held_run ()) then begin
            if Random.int 4 = 0 then ignore (do_edit ());
            if Random.int 5 > 0 then feed ();
            ignore (do_cfg ());
            if Random.int 3 = 0 then ignore (do_obs ());
            tick_begin (Random.int 3 = 0);
            finish_tick ();
            if Random.int 3 = 0 then ignore (do_obs ());
            let f = ref 50 in
            while !f > 0 && held_run () do
              decr f; ignore (do_run ());
              if Random.int 3 = 0 then ignore (do_cfg ())
            done;
            if Random.bool () then ignore (do_cfg ());
            ignore (do_obs ());
            (* collect the finished run *)
            if Random.int 3 > 0 then begin tick_begin (Random.bool ()); settle (); ignore (do_obs ()) end
          end
        done
      end
    end;
    (* wind down to quiescence: finish the tick, the run, the writers; then tick until not running *)
    let fuel = ref 600 in
    let progress () = decr fuel; !fuel > 0 in
    while progress () && (not (idle ()) || held_run () || List.exists unfinished !threads) do
      if not (do_ut ()) then if not (do_run ()) then ignore (do_st ())
    done;
    ignore (do_obs ());
    let rounds = ref 0 in
    let quiet = ref false in
    while not !quiet && !rounds < 6 do
      incr rounds;
      if style = 16 && Random.bool () then ignore (do_cfg ());
      ev (Nucleo.ETickBegin false); emit "tick 1";
      let f2 = ref 200 in
      while !f2 > 0 && not (idle ()) do decr f2; if not (do_ut ()) then ignore (do_run ()) done;
      let f3 = ref 50 in
      while !f3 > 0 && held_run () do decr f3; ignore (do_run ()) done;
      ignore (do_obs ());
      (match !s.Nucleo.last_tick with Some (_, false) -> quiet := true | _ -> ())
    done;
    print_endline (String.concat ";" (List.rev !out))
  done
