(* `driver nucleo FILE TABLE`: same history format and observation rendering as `hn nucleo` *)
open Nv
open Util
let n = n_of_int
let i = int_of_n
let ntexts = 12
let run_file file tablefile =
  let table = Hashtbl.create 100 and lens = Hashtbl.create 20 in
  Match_cmd.iter_lines tablefile (fun l ->
    match String.split_on_char ' ' l with
    | [p; t; s; len] ->
      Hashtbl.replace table (int_of_string p, int_of_string t) (if s = "-" then None else Some (int_of_string s));
      Hashtbl.replace lens (int_of_string t) (int_of_string len)
    | _ -> ());
  Match_cmd.iter_lines file (fun line ->
    if String.trim line <> "" then begin
      let items : (int * int, int) Hashtbl.t = Hashtbl.create 50 in   (* (sid, idx) -> value id *)
      let text_of sid idx = match Hashtbl.find_opt items (i sid, i idx) with Some g -> g mod ntexts | None -> 0 in
      let sc p sid idx = match Hashtbl.find_opt table (i p, text_of sid idx) with Some (Some s) -> Some (n s) | _ -> None in
      let ln sid idx = match Hashtbl.find_opt lens (text_of sid idx) with Some l -> n l | None -> N0 in
      let s = ref Nucleo.init_nstate in
      let ev e = s := Nucleo.do_event sc ln !s e in
      let inj_notifies = ref 0 in
      let threads : (int, (int * int * int ref * int ref)) Hashtbl.t = Hashtbl.create 10 in (* t -> sid, g, stage, idx *)
      let obs = ref [] in
      let push o = obs := o :: !obs in
      let idle () = (match !s.Nucleo.tpc with Nucleo.TIdle -> true | _ -> false) in
      List.iter (fun evs ->
        (* like the harness: once a step blocked where the schedule did not expect it, the rest is not replayed *)
        if (match !obs with ("BLOCKED" | "ABORTED") :: _ -> true | _ -> false) then push "ABORTED" else
        match String.split_on_char ' ' (String.trim evs) with
        | ["push"; t; h; g] ->
          (match List.find_opt (fun (h', _) -> i h' = int_of_string h) !s.Nucleo.injectors with
           | Some (_, sid) -> Hashtbl.replace threads (int_of_string t) (i sid, int_of_string g, ref 0, ref 0); push "-"
           | None -> push "NOINJ")
        | ["st"; t] ->
          (match Hashtbl.find_opt threads (int_of_string t) with
           | None -> push "-"
           | Some (sid, g, stage, idx) ->
             if !stage = 0 then begin
               idx := i (Nucleo.count_of !s (n sid));
               Hashtbl.replace items (sid, !idx) g;
               ev (Nucleo.EReserve (n sid)); stage := 1; push "Yres"
             end else if !stage = 1 then begin
               ev (Nucleo.EPublish (n sid, n !idx)); incr inj_notifies; stage := 2; push (Printf.sprintf "R%d" !idx)
             end else push (Printf.sprintf "R%d" !idx))
        | ["inj"; h] -> ev (Nucleo.ENewInjector (n (int_of_string h))); push "-"
        | ["clone"; h; h2] -> ev (Nucleo.ECloneInjector (n (int_of_string h), n (int_of_string h2))); push "-"
        | ["dropinj"; h] -> ev (Nucleo.EDropInjector (n (int_of_string h))); push "-"
        | ["edit"; p; a] -> ev (Nucleo.EEdit (n (int_of_string p), a = "1", false)); push "-"
        | ["restart"; c] -> ev (Nucleo.ERestart (c = "1")); push "-"
        | ["tick"; z] -> if idle () then begin ev (Nucleo.ETickBegin (z = "0")); push "Ybegin" end else push "BUSY"
        | ["ut"] ->
          if idle () then push "-"
          else if not (Nucleo.enabled_tick !s) then push "BLOCKED"
          else begin
            ev Nucleo.ETick;
            push (match !s.Nucleo.tpc with
                | Nucleo.TIdle -> (match !s.Nucleo.last_tick with Some (c, r) -> Printf.sprintf "T%d%d" (Bool.to_int c) (Bool.to_int r) | None -> "T??")
                | Nucleo.TBegun _ -> "Ybegin"
                | Nucleo.TBeforeLock _ -> "Ybefore_lock"
                | Nucleo.TBeforeTry _ -> "Ybefore_try"
                | Nucleo.TTryFailed _ -> "Ytry_failed"
                | Nucleo.TAfterRearm _ -> "Yafter_rearm"
                | Nucleo.TBeforeSpawn _ -> "Ybefore_spawn")
          end
        | ["run"] ->
          let steppable = (match !s.Nucleo.post with Nucleo.PNone -> (match !s.Nucleo.lock with Nucleo.HeldRun _ -> true | _ -> false) | _ -> true) in
          if not steppable then push "NORUN" else begin
            let was_done = (match !s.Nucleo.post with Nucleo.PDone -> true | _ -> false) in
            let sid = !s.Nucleo.wk.Nucleo.w_sid in
            let cnt = i (Nucleo.count_of !s sid) in
            let seen = List.filter (fun k -> Nucleo.published !s sid (n k)) (List.init cnt (fun k -> k)) in
            ev (Nucleo.ERun (List.map n seen, n cnt));
            let lk = (match !s.Nucleo.lock with Nucleo.Free -> "" | _ -> "!locked") in
            push (if was_done then "Yidle" else
                    match !s.Nucleo.post with
                    | Nucleo.PUnlocked _ -> "Yunlocked" ^ lk
                    | Nucleo.PNotify -> "Ybefore_notify" ^ lk
                    | Nucleo.PDone -> "Ydone" ^ lk
                    | Nucleo.PNone ->
                      (match !s.Nucleo.lock with
                       | Nucleo.HeldRun (Nucleo.RStart, _, _) -> "Ystart"
                       | Nucleo.HeldRun (Nucleo.RSort _, _, _) -> "Ybefore_sort"
                       | Nucleo.HeldRun (Nucleo.REnd _, _, _) -> "Yend"
                       | _ -> "Yidle"))
          end
        | ["obs"] ->
          if not (idle ()) then push "BUSY" else begin
            let sn = !s.Nucleo.snap in
            let ms = List.map (fun m -> Printf.sprintf "%d:%d" (i m.Nucleo.m_score) (i m.Nucleo.m_idx)) sn.Nucleo.sn_matches in
            let ds = List.map (fun m -> match Hashtbl.find_opt items (i sn.Nucleo.sn_sid, i m.Nucleo.m_idx) with Some g -> string_of_int g | None -> "UNINIT") sn.Nucleo.sn_matches in
            push (Printf.sprintf "O p=%d c=%d m=%s d=%s inj=%d n=%d u=0" (i sn.Nucleo.sn_pat) (i sn.Nucleo.sn_count)
                    (if ms = [] then "-" else String.concat "," ms) (if ds = [] then "-" else String.concat "," ds)
                    (i (Nucleo.active_injectors !s)) (i !s.Nucleo.notifies + !inj_notifies))
          end
        | _ -> push "?") (String.split_on_char ';' line);
      print_endline (String.concat ";" (List.rev !obs))
    end)

(* ---- model-guided history generation: `driver nucleo-gen SEED COUNT` ------------------------------ *)
(* random walks over the ENABLED events of the model (so that the real threads never block where the
   scheduler cannot see them); the pattern pool / text pool are those of harness/hn/src/nucleo_cmd.rs *)
let npatterns = 7
(* pool text extensions for truthful append flags: "a"->"ab"->"abc", "ab"->"ab c" *)
let extends_ old nw = (old = 0) || (old = 1 && (nw = 2 || nw = 3 || nw = 6)) || (old = 2 && (nw = 3 || nw = 6))
let gen ?tablefile seed count =
  Random.init seed;
  (* with the score table of the harness (pattern pool x text pool) the generator's model state is exactly the one
     the replay computes (which worker path a run takes, hence item_count / running, depends on whether there are
     matches); without it every score is None *)
  let table = Hashtbl.create 100 and lens = Hashtbl.create 20 in
  (match tablefile with
   | Some tf -> Match_cmd.iter_lines tf (fun l ->
       match String.split_on_char ' ' l with
       | [p; t; sv; len] ->
         Hashtbl.replace table (int_of_string p, int_of_string t) (if sv = "-" then None else Some (int_of_string sv));
         Hashtbl.replace lens (int_of_string t) (int_of_string len)
       | _ -> ())
   | None -> ());
  for hk = 0 to count - 1 do
    let items : (int * int, int) Hashtbl.t = Hashtbl.create 50 in
    let text_of sid idx = match Hashtbl.find_opt items (i sid, i idx) with Some g -> g mod ntexts | None -> 0 in
    let sc p sid idx = match Hashtbl.find_opt table (i p, text_of sid idx) with Some (Some v) -> Some (n v) | _ -> None in
    let ln sid idx = match Hashtbl.find_opt lens (text_of sid idx) with Some l -> n l | None -> N0 in
    let style = hk mod 8 in
    let s = ref Nucleo.init_nstate in
    let ev e = s := Nucleo.do_event sc ln !s e in
    let out = ref [] in
    let emit x = out := x :: !out in
    let threads = ref [] in         (* (tid, sid, stage ref, idx ref, g) *)
    let next_t = ref 1 and next_h = ref 1 and next_g = ref (Random.int 12) in
    let idle () = (match !s.Nucleo.tpc with Nucleo.TIdle -> true | _ -> false) in
    let held_run () = (match !s.Nucleo.post with Nucleo.PNone -> (match !s.Nucleo.lock with Nucleo.HeldRun _ -> true | _ -> false) | _ -> true) in
    let do_ut () = if (not (idle ())) && Nucleo.enabled_tick !s then (ev Nucleo.ETick; emit "ut"; true) else false in
    let do_run () =
      if held_run () then begin
        let sid = !s.Nucleo.wk.Nucleo.w_sid in
        let cnt = i (Nucleo.count_of !s sid) in
        let seen = List.filter (fun k -> Nucleo.published !s sid (n k)) (List.init cnt (fun k -> k)) in
        ev (Nucleo.ERun (List.map n seen, n cnt)); emit "run"; true end else false in
    let do_st () =
      (* style 1: keep writers parked between reservation and publication most of the time *)
      let cands = List.filter (fun (_, _, st, _, _) -> !st < 2) !threads in
      let cands = if style = 1 && Random.int 5 > 0 then List.filter (fun (_, _, st, _, _) -> !st = 0) cands else cands in
      match cands with
      | [] -> false
      | l -> let (t, sid, st, idx, g) = List.nth l (Random.int (List.length l)) in
        if !st = 0 then begin idx := i (Nucleo.count_of !s (n sid)); Hashtbl.replace items (sid, !idx) g; ev (Nucleo.EReserve (n sid)); st := 1 end
        else begin ev (Nucleo.EPublish (n sid, n !idx)); st := 2 end;
        emit (Printf.sprintf "st %d" t); true in
    let do_push () =
      match !s.Nucleo.injectors with
      | [] -> false
      | l -> if List.length (List.filter (fun (_, _, st, _, _) -> !st < 2) !threads) >= (if style = 1 then 7 else 4) then false else begin
          let (h, sid) = List.nth l (Random.int (List.length l)) in
          threads := (!next_t, i sid, ref 0, ref 0, !next_g) :: !threads;
          emit (Printf.sprintf "push %d %d %d" !next_t (i h) !next_g);
          incr next_t; next_g := !next_g + 1 + Random.int 3; true end in
    let do_inj () = if idle () then begin ev (Nucleo.ENewInjector (n !next_h)); emit (Printf.sprintf "inj %d" !next_h); incr next_h; true end else false in
    let do_obs () = if idle () then (emit "obs"; true) else false in
    let cur_pat = ref 0 in
    let do_edit () =
      if idle () then begin
        let p = Random.int npatterns in
        let app = extends_ !cur_pat p && Random.int 4 > 0 in
        ev (Nucleo.EEdit (n p, app, false)); emit (Printf.sprintf "edit %d %d" p (Bool.to_int app)); cur_pat := p;
        (* typing burst: a (usually non-append) edit directly followed by an append edit, no tick in between *)
        if Random.int 2 = 0 then begin
          let exts = List.filter (fun q -> q <> p && extends_ p q) (List.init npatterns (fun q -> q)) in
          if exts <> [] then begin
            let q = List.nth exts (Random.int (List.length exts)) in
            ev (Nucleo.EEdit (n q, true, false)); emit (Printf.sprintf "edit %d 1" q); cur_pat := q
          end
        end;
        true end else false in
    let do_restart () = if idle () then begin let c = Random.bool () in ev (Nucleo.ERestart c); emit (Printf.sprintf "restart %d" (Bool.to_int c)); true end else false in
    let do_tick () = if idle () then begin let z = ((style = 3 || style = 5) && Random.int 4 > 0) || Random.int 3 = 0 in ev (Nucleo.ETickBegin z); emit (Printf.sprintf "tick %d" (if z then 0 else 1)); true end else false in
    ignore (do_inj ());
    if style <> 4 then (ignore (do_push ()); ignore (do_push ()));
    let steps = 25 + Random.int 50 in
    for _ = 1 to steps do
      let r = Random.int 100 in
      let ok =
        if r < 22 then do_st ()
        else if r < 34 then do_push ()
        else if r < 52 then do_ut ()
        else if r < 70 then do_run ()
        else if r < 78 then do_tick ()
        else if r < 84 then do_edit ()
        else if r < 88 then (if style = 2 || Random.int 4 = 0 then do_restart () else false)
        else if r < 91 then do_inj ()
        else if r < 93 then (match !s.Nucleo.injectors with (h, _) :: _ when Random.bool () -> ev (Nucleo.ECloneInjector (h, n !next_h)); emit (Printf.sprintf "clone %d %d" (i h) !next_h); incr next_h; true | _ -> false)
        else if r < 95 then (match !s.Nucleo.injectors with [] -> false | l -> let (h, _) = List.nth l (Random.int (List.length l)) in
                              if List.exists (fun (_, _, st, _, _) -> !st < 2) !threads then false else begin ev (Nucleo.EDropInjector h); emit (Printf.sprintf "dropinj %d" (i h)); true end)
        else do_obs () in
      ignore ok;
      (* style 5: cancel-heavy - as soon as a tick has answered `running`, edit the pattern and tick again
         while the run is still parked somewhere *)
      if style = 5 && idle () && (match !s.Nucleo.last_tick with Some (_, true) -> true | _ -> false) && held_run () && Random.int 2 = 0 then begin
        ignore (do_edit ()); ignore (do_tick ()); ignore (do_ut ())
      end
    done;
    (* style 6: retype - the history ends with: let the worker settle on a non-empty pattern P0 (tick with a long
       timeout, run to completion), then type WITHOUT a tick in between a new text P1 that does not extend P0
       (append = false) and an extension P2 of P1 (append = true); the wind-down below then ticks to quiescence *)
    if style = 6 then begin
      let f0 = ref 200 in
      while !f0 > 0 && (not (idle ()) || held_run ()) do decr f0; if not (do_ut ()) then ignore (do_run ()) done;
      if idle () then begin
        (* publish most of what is in flight so that the worker has something to (not) match *)
        for _ = 1 to 6 do if Random.int 4 > 0 then ignore (do_st ()) done;
        if !cur_pat = 0 || Random.int 3 = 0 then begin
          let p0 = 1 + Random.int (npatterns - 1) in
          let app = extends_ !cur_pat p0 && Random.bool () in
          ev (Nucleo.EEdit (n p0, app, false)); emit (Printf.sprintf "edit %d %d" p0 (Bool.to_int app)); cur_pat := p0
        end;
        ev (Nucleo.ETickBegin false); emit "tick 1";
        let f1 = ref 200 in
        while !f1 > 0 && (not (idle ()) || held_run ()) do decr f1; if not (do_ut ()) then ignore (do_run ()) done;
        if Random.bool () then begin
          ev (Nucleo.ETickBegin false); emit "tick 1";
          let f2 = ref 200 in
          while !f2 > 0 && (not (idle ()) || held_run ()) do decr f2; if not (do_ut ()) then ignore (do_run ()) done
        end;
        ignore (do_obs ());
        if idle () then begin
          let firsts = List.filter (fun q -> q <> !cur_pat && List.exists (fun r -> r <> q && extends_ q r) (List.init npatterns (fun r -> r))) (List.init npatterns (fun q -> q)) in
          let p1 = List.nth firsts (Random.int (List.length firsts)) in
          ev (Nucleo.EEdit (n p1, false, false)); emit (Printf.sprintf "edit %d 0" p1);
          let exts = List.filter (fun r -> r <> p1 && extends_ p1 r) (List.init npatterns (fun r -> r)) in
          let p2 = List.nth exts (Random.int (List.length exts)) in
          ev (Nucleo.EEdit (n p2, true, false)); emit (Printf.sprintf "edit %d 1" p2); cur_pat := p2;
          if Random.int 3 = 0 then ignore (do_push ());
          for _ = 1 to 3 do if Random.bool () then ignore (do_st ()) done
        end
      end
    end;
    (* style 7: stale run at restart - the history ends with: a zero-timeout tick leaves a run behind, the run
       finishes and is NOT collected, restart, a zero-timeout tick that spawns the first run over the new stream and
       times out on it, observations while that run is still parked; then the wind-down *)
    if style = 7 then begin
      let f0 = ref 200 in
      while !f0 > 0 && (not (idle ()) || held_run ()) do decr f0; if not (do_ut ()) then ignore (do_run ()) done;
      if idle () && not (held_run ()) then begin
        if !s.Nucleo.injectors = [] then ignore (do_inj ());
        (* make sure there is work for the run: a new item, published *)
        ignore (do_push ());
        for _ = 1 to 8 do if Random.int 5 > 0 then ignore (do_st ()) done;
        if Random.int 3 = 0 then ignore (do_edit ());
        ev (Nucleo.ETickBegin true); emit "tick 0";
        let f1 = ref 50 in
        while !f1 > 0 && not (idle ()) do decr f1; if not (do_ut ()) then ignore (do_run ()) done;
        let f2 = ref 50 in
        while !f2 > 0 && held_run () do decr f2; ignore (do_run ()) done;
        if Random.int 4 > 0 then ignore (do_obs ());
        if Random.int 3 = 0 then (ignore (do_push ()); ignore (do_st ()); ignore (do_st ()));
        ignore (do_restart ());
        if Random.int 3 = 0 then ignore (do_obs ());
        if Random.int 3 = 0 then (ignore (do_inj ()); ignore (do_push ()); ignore (do_st ()); ignore (do_st ()));
        ev (Nucleo.ETickBegin true); emit "tick 0";
        let f3 = ref 50 in
        while !f3 > 0 && not (idle ()) do decr f3; if not (do_ut ()) then ignore (do_run ()) done;
        ignore (do_obs ());
        if Random.bool () then begin
          (* a second timed-out tick while the run over the new stream is still parked / finished but not collected *)
          for _ = 1 to Random.int 4 do ignore (do_run ()) done;
          ignore (do_obs ());
          if Random.bool () then ignore (do_restart ());
          ignore (do_obs ())
        end
      end
    end;
    (* wind down to quiescence: finish the tick, the run, the writers; then tick until not running *)
    let fuel = ref 400 in
    let progress () = decr fuel; !fuel > 0 in
    while progress () && (not (idle ()) || held_run () || List.exists (fun (_, _, st, _, _) -> !st < 2) !threads) do
      if not (do_ut ()) then if not (do_run ()) then ignore (do_st ())
    done;
    ignore (do_obs ());
    let rounds = ref 0 in
    let quiet = ref false in
    while not !quiet && !rounds < 6 do
      incr rounds;
      ev (Nucleo.ETickBegin false); emit "tick 1";
      let f2 = ref 200 in
      while !f2 > 0 && not (idle ()) do decr f2; if not (do_ut ()) then ignore (do_run ()) done;
      let f3 = ref 50 in
      while !f3 > 0 && held_run () do decr f3; ignore (do_run ()) done;
      ignore (do_obs ());
      (match !s.Nucleo.last_tick with Some (_, false) -> quiet := true | _ -> ())
    done;
    print_endline (String.concat ";" (List.rev !out))
  done
