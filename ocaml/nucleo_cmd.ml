(* `driver nucleo FILE TABLE`: same history format and observation rendering as `hn nucleo` *)
open Nv
open Util
let n = n_of_int
let i = int_of_n
let ntexts = 12
let run_file file tablefile =
  let table = Hashtbl.create 100 and lens = Hashtbl.create 20 in
  Match_cmd.iter_lines tablefile (fun l ->
    match String.split_on_char ' ' l with
    | [p; t; s; len] ->
      Hashtbl.replace table (int_of_string p, int_of_string t) (if s = "-" then None else Some (int_of_string s));
      Hashtbl.replace lens (int_of_string t) (int_of_string len)
    | _ -> ());
  Match_cmd.iter_lines file (fun line ->
    if String.trim line <> "" then begin
      let items : (int * int, int) Hashtbl.t = Hashtbl.create 50 in   (* (sid, idx) -> value id *)
      let text_of sid idx = match Hashtbl.find_opt items (i sid, i idx) with Some g -> g mod ntexts | None -> 0 in
      let sc p sid idx = match Hashtbl.find_opt table (i p, text_of sid idx) with Some (Some s) -> Some (n s) | _ -> None in
      let ln sid idx = match Hashtbl.find_opt lens (text_of sid idx) with Some l -> n l | None -> N0 in
      let s = ref Nucleo.init_nstate in
      let ev e = s := Nucleo.do_event sc ln !s e in
      let inj_notifies = ref 0 in
      let threads : (int, (int * int * int ref * int ref)) Hashtbl.t = Hashtbl.create 10 in (* t -> sid, g, stage, idx *)
      let obs = ref [] in
      let push o = obs := o :: !obs in
      let idle () = (match !s.Nucleo.tpc with Nucleo.TIdle -> true | _ -> false) in
      List.iter (fun evs ->
        match String.split_on_char ' ' (String.trim evs) with
        | ["push"; t; h; g] ->
          (match List.find_opt (fun (h', _) -> i h' = int_of_string h) !s.Nucleo.injectors with
           | Some (_, sid) -> Hashtbl.replace threads (int_of_string t) (i sid, int_of_string g, ref 0, ref 0); push "-"
           | None -> push "NOINJ")
        | ["st"; t] ->
          (match Hashtbl.find_opt threads (int_of_string t) with
           | None -> push "-"
           | Some (sid, g, stage, idx) ->
             if !stage = 0 then begin
               idx := i (Nucleo.count_of !s (n sid));
               Hashtbl.replace items (sid, !idx) g;
               ev (Nucleo.EReserve (n sid)); stage := 1; push "Yres"
             end else if !stage = 1 then begin
               ev (Nucleo.EPublish (n sid, n !idx)); incr inj_notifies; stage := 2; push (Printf.sprintf "R%d" !idx)
             end else push (Printf.sprintf "R%d" !idx))
        | ["inj"; h] -> ev (Nucleo.ENewInjector (n (int_of_string h))); push "-"
        | ["clone"; h; h2] -> ev (Nucleo.ECloneInjector (n (int_of_string h), n (int_of_string h2))); push "-"
        | ["dropinj"; h] -> ev (Nucleo.EDropInjector (n (int_of_string h))); push "-"
        | ["edit"; p; a] -> ev (Nucleo.EEdit (n (int_of_string p), a = "1", false)); push "-"
        | ["restart"; c] -> ev (Nucleo.ERestart (c = "1")); push "-"
        | ["tick"; z] -> if idle () then begin ev (Nucleo.ETickBegin (z = "0")); push "Ybegin" end else push "BUSY"
        | ["ut"] ->
          if idle () then push "-"
          else if not (Nucleo.enabled_tick !s) then push "BLOCKED"
          else begin
            ev Nucleo.ETick;
            push (match !s.Nucleo.tpc with
                | Nucleo.TIdle -> (match !s.Nucleo.last_tick with Some (c, r) -> Printf.sprintf "T%d%d" (Bool.to_int c) (Bool.to_int r) | None -> "T??")
                | Nucleo.TBegun _ -> "Ybegin"
                | Nucleo.TBeforeLock _ -> "Ybefore_lock"
                | Nucleo.TBeforeTry _ -> "Ybefore_try"
                | Nucleo.TTryFailed _ -> "Ytry_failed"
                | Nucleo.TAfterRearm _ -> "Yafter_rearm"
                | Nucleo.TBeforeSpawn _ -> "Ybefore_spawn")
          end
        | ["run"] ->
          (match !s.Nucleo.lock with
           | Nucleo.HeldRun _ ->
             let sid = !s.Nucleo.wk.Nucleo.w_sid in
             let cnt = i (Nucleo.count_of !s sid) in
             let seen = List.filter (fun k -> Nucleo.published !s sid (n k)) (List.init cnt (fun k -> k)) in
             ev (Nucleo.ERun (List.map n seen, n cnt));
             push (match !s.Nucleo.lock with
                 | Nucleo.HeldRun (Nucleo.RStart, _, _) -> "Ystart"
                 | Nucleo.HeldRun (Nucleo.RSort _, _, _) -> "Ybefore_sort"
                 | Nucleo.HeldRun (Nucleo.RNotifyRead, _, _) -> "Ybefore_notify_read"
                 | Nucleo.HeldRun (Nucleo.RNotify, _, _) -> "Ybefore_notify"
                 | Nucleo.HeldRun (Nucleo.REnd, _, _) -> "Yend"
                 | _ -> "Yunlocked")
           | _ -> push "NORUN")
        | ["obs"] ->
          if not (idle ()) then push "BUSY" else begin
            let sn = !s.Nucleo.snap in
            let ms = List.map (fun m -> Printf.sprintf "%d:%d" (i m.Nucleo.m_score) (i m.Nucleo.m_idx)) sn.Nucleo.sn_matches in
            let ds = List.map (fun m -> match Hashtbl.find_opt items (i sn.Nucleo.sn_sid, i m.Nucleo.m_idx) with Some g -> string_of_int g | None -> "UNINIT") sn.Nucleo.sn_matches in
            push (Printf.sprintf "O c=%d m=%s d=%s inj=%d n=%d" (i sn.Nucleo.sn_count)
                    (if ms = [] then "-" else String.concat "," ms) (if ds = [] then "-" else String.concat "," ds)
                    (i (Nucleo.active_injectors !s)) (i !s.Nucleo.notifies + !inj_notifies))
          end
        | _ -> push "?") (String.split_on_char ';' line);
      print_endline (String.concat ";" (List.rev !obs))
    end)
