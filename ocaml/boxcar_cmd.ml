(* `driver boxcar FILE`: same history format and observation rendering as `hn boxcar` *)
open Nv
open Util
let n = n_of_int
let i = int_of_n
let show_obs s t_opt o =
  match o with
  | OYield (site, a) -> Printf.sprintf "Y%d,%d" (i site) (i a)
  | OReturn (Some r) -> Printf.sprintf "R%d" (i r)
  | OReturn None -> "R-"
  | OPanic -> "PANIC"
  | OGet None -> "G-"
  | OGet (Some (v, c)) -> Printf.sprintf "G%d,%d" (i v) (i c)
  | OCount c -> Printf.sprintf "C%d" (i c)
  | OSnap (e, items) ->
    Printf.sprintf "S%d:%s" (i e) (String.concat "," (List.map (fun (k, b) -> Printf.sprintf "%d%s" (i k) (if b then "+" else "-")) items))
  | ODropped (vs, _) -> "D" ^ String.concat "," (List.map string_of_int (List.sort compare (List.map i vs)))
  | ONone ->
    (match t_opt with
     | Some t -> (match lookup t s.threads with
         | Some (Done (Some r)) -> Printf.sprintf "R%d" (i r)
         | Some (Done None) -> "R-"
         | Some TPanicked -> "PANIC"
         | _ -> "-")
     | None -> "-")
let finished = function Done _ | TPanicked -> true | _ -> false
let rec finish_all s fuel =
  if fuel = 0 then s else
  match List.find_opt (fun (_, p) -> not (finished p)) s.threads with
  | None -> s
  | Some (t, _) -> finish_all (fst (step_thread s t)) (fuel - 1)
let run_file file =
  Match_cmd.iter_lines file (fun line ->
    if String.trim line <> "" then begin
      let s = ref (init_state N0) in
      let obs = ref [] in
      let push o = obs := o :: !obs in
      List.iter (fun ev ->
        let p = String.split_on_char ' ' (String.trim ev) in
        match p with
        | c :: _ when String.length c > 4 && String.sub c 0 4 = "cap=" ->
          s := init_state (n (int_of_string (String.sub c 4 (String.length c - 4)))); push "-"
        | "sp" :: t :: "push" :: v :: rest ->
          let fp = (rest = ["p"]) in
          s := fst (do_event !s (Spawn (n (int_of_string t), PushStart (n (int_of_string v), fp)))); push "-"
        | "sp" :: t :: "ext" :: count :: vals :: rest ->
          let vs = if vals = "-" then [] else List.map (fun x -> n (int_of_string x)) (String.split_on_char ',' vals) in
          let pa = match rest with [k] -> Some (n (int_of_string (String.sub k 1 (String.length k - 1)))) | _ -> None in
          s := fst (do_event !s (Spawn (n (int_of_string t), ExtStart (n (int_of_string count), vs, pa)))); push "-"
        | ["st"; t] ->
          let t = n (int_of_string t) in
          let (s', o) = do_event !s (Step t) in
          s := s'; push (show_obs s' (Some t) o)
        | ["get"; k] -> let (_, o) = do_event !s (Get (n (int_of_string k))) in push (show_obs !s None o)
        | ["count"] -> let (_, o) = do_event !s Count in push (show_obs !s None o)
        | ["snap"; k] ->
          (* Vec::snapshot asserts start <= count *)
          if int_of_string k > i (count !s) then push "SPANIC"
          else let (_, o) = do_event !s (Snap (n (int_of_string k))) in push (show_obs !s None o)
        | ["drop"] ->
          s := finish_all !s 100000;
          let (s', o) = do_event !s DropVec in
          s := s'; push (show_obs s' None o)
        | _ -> push "?") (String.split_on_char ';' line);
      s := finish_all !s 100000;
      push ("T" ^ String.concat "," (List.map string_of_int (List.sort compare (List.map i !s.drops))));
      push "W0";
      print_endline (String.concat ";" (List.rev !obs))
    end)
